# encoding: utf-8
"""C17 - population estimates scale the right proportion by population and filter share."""

import math

import numpy as np

from cr.cube.cube import Cube, CubeSet

from mc import schemas as S
from mc.common2d import Reg, SignedSlice, resolve_insertions, subtotal, transforms_for
from mc.compare import SKIP, arr_bytes, first_diff, num_eq
from mc.engine import Res, Space, digest, multisets, viol
from mc.model import CatVar, Schema, tabulate
from mc.oracle import div
from mc.partition import partition_oracles
from props.c11 import cell_stats, _moments, _se

ID = "C17"
CHUNK = 150
RULE = ("states = (multiset of <=N respondents, insertion config, filter-statistics shape (13), "
        "population in {None,0,1,1000}); non-trivial = population > 0, fraction finite and some "
        "estimate > 0; distinct = distinct (fraction, estimates)")
ASSUMPTIONS = ["margin of error of a subtotal difference is unasserted (statement only fixes the "
               "estimate itself to NaN)", "weights {1,2}"]
TRUSTED = ["numpy"]
Z = 1.959964
NANF = float("nan")

# (name, extra result keys, expected fraction)
FILTERS = [
    ("absent", {}, 1.0),
    ("old_half", {"filtered": {"weighted_n": 3.0}, "unfiltered": {"weighted_n": 6.0}}, 0.5),
    ("old_zero_den", {"filtered": {"weighted_n": 3.0}, "unfiltered": {"weighted_n": 0}}, NANF),
    ("old_zero_both", {"filtered": {"weighted_n": 0}, "unfiltered": {"weighted_n": 0}}, NANF),
    ("old_zero_num", {"filtered": {"weighted_n": 0}, "unfiltered": {"weighted_n": 4}}, 0.0),
    ("old_null", {"filtered": {"weighted_n": None}, "unfiltered": {"weighted_n": None}}, 1.0),
    ("old_missing_key", {"filtered": {}, "unfiltered": {"weighted_n": 5}}, 1.0),
    ("new", {"filter_stats": {"filtered_complete": {"weighted": {"selected": 1.0, "other": 3.0, "missing": 2.0}}}}, 0.25),
    ("new_over_old", {"filter_stats": {"filtered_complete": {"weighted": {"selected": 1.0, "other": 3.0}}},
                      "filtered": {"weighted_n": 3.0}, "unfiltered": {"weighted_n": 6.0}}, 0.25),
    ("new_zero", {"filter_stats": {"filtered_complete": {"weighted": {"selected": 0, "other": 0}}}}, NANF),
    ("new_zero_sel", {"filter_stats": {"filtered_complete": {"weighted": {"selected": 0, "other": 2}}}}, 0.0),
    ("new_cat_date", {"filter_stats": {"is_cat_date": True,
                                       "filtered_complete": {"weighted": {"selected": 1.0, "other": 3.0}}}}, 1.0),
    ("cat_date_flag_without_stats_then_old", {"filter_stats": {"is_cat_date": True, "filtered_complete": {}},
                                              "filtered": {"weighted_n": 1.0}, "unfiltered": {"weighted_n": 4.0}}, 0.25),
    ("cat_date_flag_null_stats_zero_den", {"filter_stats": {"is_cat_date": True, "filtered_complete": {"weighted": None}},
                                           "filtered": {"weighted_n": 1.0}, "unfiltered": {"weighted_n": 0}}, NANF),
    ("new_unweighted_only_then_old", {"filter_stats": {"filtered_complete": {"unweighted": {"selected": 19, "other": 14}}},
                                      "filtered": {"weighted_n": 1.0}, "unfiltered": {"weighted_n": 4.0}}, 0.25),
    ("new_unweighted_only_weighted_null", {"filter_stats": {"filtered_complete": {"weighted": None,
                                                                                   "unweighted": {"selected": 19, "other": 14}}}}, 1.0),
    ("new_empty_then_old", {"filter_stats": {"filtered_complete": {}},
                            "filtered": {"weighted_n": 1.0}, "unfiltered": {"weighted_n": 4.0}}, 0.25),
]
POPS = [None, 0, 1, 1000]

A3 = S.cat("a", 3, "mid")
B2 = S.cat("b", 2, "first")
D3 = S.cat("d", 3, "last", date=True)
E2 = S.cat("e", 2, "first", date=True)
M2 = S.mr("m", 2)
p12 = subtotal("p12", [1, 2], anchor="top", sid=1)
d12 = subtotal("d1_2", [1], [2], anchor="bottom", sid=2)
d12_3 = subtotal("d12_3", [1, 2], [3], anchor=1, sid=3)
# differences without a usable positive part: nothing added / only a stale or missing id added
dneg = subtotal("d_12", [], [1, 2], anchor="top", sid=4)
dstale = subtotal("d99_1", [99, -1], [1], anchor=2, sid=5)
# a NEGATIVE list naming only stale / missing ids: not a difference at all, a plain subtotal of its positive part
pstale = subtotal("p12_99", [1, 2], [99, -1], anchor="bottom", sid=6)

def _first_undated(v):
    """the same categorical-date variable with the date removed from its FIRST valid category"""
    cats = [dict(c) for c in v.cats]
    k = next(i for i, c in enumerate(cats) if not c.get("missing"))
    cats[k].pop("date", None)
    return CatVar(v.alias, cats)


D3u = _first_undated(D3)

BASES = {
    "cat3_x_cat2": (S.schema2("cat3_x_cat2", A3, B2, weighted=True), (1, 2), [{}, {"rows": [p12, d12]}, {"cols": [d12]}, {"rows": [dneg, dstale], "cols": [dneg]},
                     {"rows": [pstale, d12], "cols": [pstale]}], 2, 3),
    # the variable's view defines two plain subtotals, the analysis overrides them with a difference + a plain one
    "cat3view_x_cat2": (S.schema2("cat3view_x_cat2", CatVar(A3.alias, A3.cats, view_insertions=[p12, dict(pstale)]), B2, weighted=True),
                        (1, 2), [{"rows": [d12, p12]}, {"rows": [p12, d12_3]}], 2, 3),
    "date3_x_cat2": (S.schema2("date3_x_cat2", D3, B2, weighted=True), (1, 2), [{}, {"rows": [p12, d12]}], 2, 3),
    # a date on ANY category makes the dimension categorical-date, also when the first valid one has none
    "date3u_x_cat2": (S.schema2("date3u_x_cat2", D3u, B2, weighted=True), (1, 2), [{}], 2, 3),
    "date3u_1d": (Schema("date3u_1d", [D3u], [("cat", 0)], weighted=True), (1, 2), [{}], 2, 3),
    "cat2_x_date3": (S.schema2("cat2_x_date3", B2, D3), (1,), [{}, {"cols": [p12, d12, d12_3]}], 2, 3),
    "date3_x_date2": (S.schema2("date3_x_date2", D3, E2), (1,), [{}], 2, 3),
    "cat3_x_mr": (S.schema2("cat3_x_mr", A3, M2), (1,), [{}, {"rows": [d12]}], 1, 2),
    "cat3_1d": (Schema("cat3_1d", [A3], [("cat", 0)], weighted=True), (1, 2),
                [{}, {"rows": [p12, d12]}, {"rows": [dneg, dstale]}], 2, 4),
    "date3_1d": (Schema("date3_1d", [D3], [("cat", 0)], weighted=True), (1, 2), [{}, {"rows": [p12, d12]}], 2, 4),
    "mr_1d": (Schema("mr_1d", [M2], [("mr", 0)]), (1,), [{}], 2, 3),
}
SCHEMAS = {k: v[0] for k, v in BASES.items()}
PROFILES = {k: v[0].profiles(v[1]) for k, v in BASES.items()}


# multitable cube set whose second cube is a single-column filter (re-inflated by the library): the
# population given to the set reaches every cube of it
FS = "cubeset_filter_column"
FS_POPS = (1, 1000)


def _fs_space(tier):
    import props.c02 as c02
    n = 3 if tier == "quick" else 5

    def level(k):
        def gen():
            for ms in multisets(len(c02.FS_PROFILES), k):
                for p in range(len(FS_POPS)):
                    yield (ms, p)
        return gen
    return Space(FS, [(k, level(k)) for k in range(1, n + 1)], len(c02.FS_PROFILES),
                 {"profiles": len(c02.FS_PROFILES), "populations": list(FS_POPS), "max_respondents": n})


def _check_fs(state):
    import props.c02 as c02
    from cr.cube.cube import CubeSet
    people, inside, resps = c02._fs_responses((state[0], 0))
    pop = FS_POPS[state[1]]
    cs = CubeSet(resps, [{}, {}], pop, 0)
    V, asserted = [], 0
    parts = cs.partition_sets[0]
    for ci, (part, members) in enumerate(zip(parts, ([v for v, _ in people], inside))):
        base = len(members)
        exp = [div(sum(1 for v in members if v == k), base) * pop for k in range(3)]
        asserted += 1
        d = first_diff(part.population_counts, exp)
        if d is not None:
            V.append(viol("cubeset:cube%d:population_counts" % ci, "cube %d population_counts at %s: library %r, "
                          "share x population %r (population %d)" % (ci, d[0], d[1], d[2], pop), output="population_counts"))
    return Res(V, len(inside) > 0, digest(FS, state[1], arr_bytes(parts[1].population_counts)), asserted)


def spaces(tier):
    out = [_fs_space(tier)]
    for name in sorted(BASES):
        sch, w, cfgs, q, t = BASES[name]
        n = q if tier == "quick" else t
        npf = len(PROFILES[name])

        def level(k, npf=npf, ncf=len(cfgs)):
            def gen():
                for ms in multisets(npf, k):
                    for c in range(ncf):
                        for f in range(len(FILTERS)):
                            for p in range(len(POPS)):
                                yield (ms, c, f, p)
            return gen
        out.append(Space(name, [(k, level(k)) for k in range(0, n + 1)], npf,
                         {"schema": name, "profiles": npf, "configs": len(cfgs), "filter_shapes": len(FILTERS),
                          "populations": POPS, "max_respondents": n}))
    return out


def _unpack(space, state):
    sch, w, cfgs, q, t = BASES[space]
    data = [PROFILES[space][i] for i in state[0]]
    return sch, data, cfgs[state[1]], FILTERS[state[2]], POPS[state[3]]


def detail(space, state):
    if space == FS:
        import props.c02 as c02
        people, inside, resps = c02._fs_responses((state[0], 0))
        return {"respondents": [{"text_value": v, "in_filter": bool(f)} for v, f in people],
                "population": FS_POPS[state[1]], "responses": resps}
    sch, data, cfg, flt, pop = _unpack(space, state)
    return {"schema": space, "dims": sch.dims, "transforms": transforms_for(cfg), "filter_shape": flt[0],
            "result_extra": flt[1], "population": pop,
            "respondents": [{"answers": r[0], "weight": r[1]} for r in data]}


def check(space, state):
    if space == FS:
        return _check_fs(state)
    sch, data, cfg, flt, pop = _unpack(space, state)
    resp = tabulate(sch, data)
    resp["result"].update(flt[1])
    cube = Cube(resp, transforms=transforms_for(cfg), population=pop)
    part = cube.partitions[0]
    kind, _lbl, orc = partition_oracles(sch, data)[0]
    V = []
    asserted = 0
    frac = flt[2]
    popv = 0 if pop is None else pop

    def cmp(name, obs, exp):
        nonlocal asserted
        asserted += 1
        d = first_diff(obs, exp)
        if d is not None:
            V.append(viol(name, "%s at %s: library %r, expected %r (filter shape %s, population %r)"
                          % (name, d[0], d[1], d[2], flt[0], pop), output=name))

    cmp("population_fraction:%s" % flt[0], part.population_fraction, frac)
    cmp("cube.population_fraction:%s" % flt[0], cube.population_fraction, frac)

    if kind == "strand":
        rows = orc.rows
        specs = resolve_insertions(rows, cfg.get("rows"))
        order = [int(i) for i in part.row_order()]
        groups = [([k], []) for k in range(len(rows))] + [(a, s) for _, a, s in specs]
        date = rows.kind == "CAT_DATE"
        props, ses = [], []
        for i in order:
            g = groups[i if i >= 0 else len(rows) + len(specs) + i]
            pairs = []
            for r in orc.data:
                if not any(rows.valid(r, k) for k in g[0] + g[1]):
                    continue
                x = 1 if any(rows.member(r, k) for k in g[0]) else (-1 if any(rows.member(r, k) for k in g[1]) else 0)
                pairs.append((x, r[1]))
            m, v, tw = _moments(pairs)
            if date:
                m, se = 1.0, 0.0
            else:
                se = _se(v, tw)
            if g[1]:
                m, se = NANF, SKIP
            props.append(m)
            ses.append(se)
        expc = [p * popv * frac for p in props]
        expm = [SKIP if s is SKIP else Z * popv * frac * s for s in ses]
        cmp("strand.population_counts", part.population_counts, expc)
        cmp("strand.population_counts_moe", part.population_counts_moe, expm)
        nontrivial = popv > 0 and frac == frac and any(x == x and x > 0 for x in expc)
        return Res(V, nontrivial, digest(space, state[1:], arr_bytes(part.population_counts)), asserted)

    ss = SignedSlice(orc, cfg)
    ro, co = ss.display(part)
    which = "row" if orc.rows.kind == "CAT_DATE" else ("col" if orc.cols.kind == "CAT_DATE" else "table")
    expc, expm = [], []
    for I in ro:
        rc, rm = [], []
        for J in co:
            st = cell_stats(ss, I, J)[which]
            p, var, base = st
            diff = ss.is_diff_row(I) or ss.is_diff_col(J)
            # wave differences on the date dimension itself are not the mean of an indicator
            rc.append(NANF if diff else p * popv * frac)
            rm.append(SKIP if diff else Z * popv * frac * _se(var, base))
        expc.append(rc)
        expm.append(rm)
    cmp("population_counts", part.population_counts, expc)
    cmp("population_counts_moe", part.population_counts_moe, expm)
    nontrivial = popv > 0 and frac == frac and any(x == x and x > 0 for row in expc for x in row)
    return Res(V, nontrivial, digest(space, state[1:], arr_bytes(part.population_counts)), asserted)
