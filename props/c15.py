# encoding: utf-8
"""C15 - share of sum divides by the base-cell total of the row, column or table."""

import math

import numpy as np

from mc import schemas as S
from mc.common2d import Reg, display_map, resolve_insertions, subtotal, with_subtotals
from mc.compare import SKIP, arr_bytes, first_diff, num_eq
from mc.engine import Res, digest, viol
from mc.model import Schema

ID = "C15"
CHUNK = 100
RULE = ("states = (multiset of <=N respondents with numeric answers in {missing,1,2,-1}, plain-"
        "subtotal config on rows / columns / both); non-trivial = the table has a non-zero total "
        "and a subtotal (or, without subtotals, two non-zero cells); distinct = distinct share "
        "tensors")
ASSUMPTIONS = ["cells whose denominator (row / column / table total) is zero are unasserted",
               "plain subtotals only; NaN sums count as 0 in totals (nansum)"]
TRUSTED = ["numpy"]
NANF = float("nan")


def _build():
    reg = Reg()
    A3 = S.cat("a", 3, "mid")
    B2 = S.cat("b", 2, "first")
    B3 = S.cat("b", 3, "last")
    M = S.mr("m", 2)
    NA = S.numarr("na", 2)
    rs = [subtotal("r12", [1, 2], anchor=1, sid=1)]
    rs2 = [subtotal("r12", [1, 2], anchor="top", sid=1), subtotal("r23", [2, 3], anchor="bottom", sid=2)]
    cs = [subtotal("c12", [1, 2], anchor="bottom", sid=1)]
    cs3 = [subtotal("c13", [1, 3], anchor=1, sid=1)]
    # differences: the share of a difference is its (public) sum over the same base-row total
    rd = [subtotal("r1_2", [1], [2], anchor="top", sid=1), subtotal("r23_1", [2, 3], [1], anchor=2, sid=2),
          subtotal("r12", [1, 2], anchor="bottom", sid=3)]
    num = {"measures": ["sum"], "valid_counts": True}
    NUMS = (None, 1, 2, -1)
    reg.add(S.schema2("sum_cat3_x_cat2", A3, B2, numeric=dict(num)), (1,), NUMS,
            configs=[{}, {"rows": rs}, {"cols": cs}, {"rows": rs2, "cols": cs}, {"rows": rd, "cols": cs}], quick=2, thorough=3)
    reg.add(S.schema2("sum_cat3_x_cat3", A3, B3, numeric=dict(num)), (1,), (None, 1, 2),
            configs=[{"rows": rs2, "cols": cs}, {"rows": rs, "cols": cs3}], quick=2, thorough=3)
    reg.add(S.schema2("sumna_cat3_x_cat2", A3, B2, numeric={"measures": ["sum"], "valid_counts": True, "sum_empty": "na"}),
            (1,), (None, 1, 2), configs=[{}, {"rows": rs}, {"cols": cs}, {"rows": rs2, "cols": cs}], quick=3, thorough=4)
    reg.add(S.schema2("sum_cat3_x_cat2_w", A3, B2, weighted=True, numeric=dict(num)), (1, 2), (None, 1, -1),
            configs=[{"rows": rs, "cols": cs}], quick=2, thorough=2)
    reg.add(S.schema2("sum_cat3_x_mr", A3, M, numeric=dict(num)), (1,), (None, 1, 2),
            configs=[{}, {"rows": rs2}], quick=2, thorough=2)
    reg.add(S.schema2("sum_mr_x_cat3", M, B3, numeric=dict(num)), (1,), (None, 1, 2),
            configs=[{}, {"cols": cs3}], quick=2, thorough=2)
    NAV = (None, (1, None), (1, 2), (-1, 2), (2, 2))
    reg.add(Schema("sum_numarr_x_cat3", [B3], [("cat", 0)], numeric={"measures": ["sum"], "numarr": NA}),
            (1,), NAV, configs=[{}, {"cols": cs3}], quick=3, thorough=4)
    reg.add(Schema("sum_cat3_1d", [A3], [("cat", 0)], numeric=dict(num)), (1,), NUMS,
            configs=[{}, {"rows": rs2}, {"rows": rd}], quick=3, thorough=5)
    reg.add(Schema("sumna_cat3_1d", [A3], [("cat", 0)], numeric={"measures": ["sum"], "valid_counts": True, "sum_empty": "na"}),
            (1,), NUMS, configs=[{}, {"rows": rs2}, {"rows": rd}], quick=3, thorough=4)
    reg.add(Schema("sum_numarr_1d", [], [], numeric={"measures": ["sum"], "numarr": NA}),
            (1,), NAV, configs=[{}], quick=4, thorough=6)
    return reg


REG = _build()
SCHEMAS = REG.schemas


def spaces(tier):
    return REG.spaces(tier)


def detail(space, state):
    return REG.detail(space, state)


def _cell_sum(members, item=None, empty=0):
    vals = []
    for r in members:
        x = r[2] if item is None else (r[2][item] if r[2] is not None else None)
        if x is not None:
            vals.append(x * r[1])
    return sum(vals) if vals else empty


def _nansum(xs):
    return sum(x for x in xs if x == x)


def check(space, state):
    sch, data, cfg, cube, oracles = REG.build(space, state)
    V = []
    asserted = 0
    outs = []
    nontrivial = False
    numarr = bool(sch.numeric.get("numarr"))
    empty = NANF if sch.numeric.get("sum_empty") == "na" else 0

    def cmp(name, kindsfx, obs, exp, block=""):
        nonlocal asserted
        asserted += 1
        d = first_diff(obs, exp)
        if d is not None:
            V.append(viol("%s%s" % (name, kindsfx), "%s cell %s: library %r, sum/base-cell total = %r"
                          % (name, d[0], d[1], d[2]), output=name, cell=list(d[0])))

    scaled = {}
    if sch.weighted and data:
        from mc.common2d import SCALES, scale_invariant, scaled_parts
        scaled = {e: scaled_parts(sch, data, cfg, e) for e in SCALES}
    for pidx, (part, (kind, _lbl, orc)) in enumerate(zip(cube.partitions, oracles)):
        for e, sp in scaled.items():
            asserted += scale_invariant(V, ["share_sum"] if kind == "strand" else
                                        ["row_share_sum", "column_share_sum", "total_share_sum"], part, sp[pidx], e)
        if kind == "strand":
            rows = orc.rows
            specs = resolve_insertions(rows, cfg.get("rows"))
            order = [int(i) for i in part.row_order()]
            base = []
            for k in range(len(rows)):
                mem = orc.data if numarr else [r for r in orc.data if rows.member(r, k)]
                base.append(_cell_sum(mem, k if numarr else None, empty))
            tot = _nansum(base)
            exp = []
            pub = np.asarray(part.sums, dtype=float).tolist()
            for pos, i in enumerate(order):
                if i >= 0:
                    v = base[i]
                else:
                    _, add, _sub = specs[len(specs) + i]
                    # a difference: whatever the partition reports as its sum, over the same total
                    v = pub[pos] if _sub else sum(base[a] for a in add)
                if tot == 0:
                    exp.append(SKIP if i < 0 else
                               (NANF if (v != v or v == 0) else (float("inf") if v > 0 else float("-inf"))))
                else:
                    exp.append(v / tot if v == v else NANF)
            cmp("strand.share_sum", "", part.share_sum, exp)
            if tot != 0:
                asserted += 1
                s = _nansum([x for x, i in zip(np.asarray(part.share_sum, dtype=float).tolist(), order) if i >= 0])
                if not num_eq(s, 1.0, 1e-9, 1e-9):
                    V.append(viol("strand.share_sum:sum_to_one", "base rows sum to %r" % s))
            outs.append(arr_bytes(part.share_sum))
            nontrivial = nontrivial or (tot != 0 and sum(1 for b in base if b == b and b != 0) > 1)
            continue
        o = with_subtotals(orc, cfg)
        nr, nc = o.n_base_rows, o.n_base_cols
        ro = display_map(part.row_order(), nr, len(o.row_specs))
        co = display_map(part.column_order(), nc, len(o.col_specs))
        # sums of base cells from respondents
        Sb = [[_cell_sum(orc.members(i, j), i if numarr else None, empty) for j in range(nc)] for i in range(nr)]

        def val(I, J):
            """signed-merge sum of (possibly merged) cell: NaN sums propagate as in a sum"""
            return sum(Sb[a][b] for a in o.row_groups[I] for b in o.col_groups[J])
        rowtot = {I: _nansum([val(I, j) for j in range(nc)]) for I in set(ro)}
        coltot = {J: _nansum([val(i, J) for i in range(nr)]) for J in set(co)}
        total = _nansum([Sb[i][j] for i in range(nr) for j in range(nc)])

        pubs = np.asarray(part.sums, dtype=float)
        diff_r = {nr + k for k, (_, _a, sb) in enumerate(o.row_specs) if sb}
        diff_c = {nc + k for k, (_, _a, sb) in enumerate(o.col_specs) if sb}

        def share(I, J, den):
            v = val(I, J)
            if I in diff_r or J in diff_c:
                v = float(pubs[ro.index(I), co.index(J)])      # a difference: its public sum
            if den == 0:
                # a total that cancels to exactly zero: for a BASE cell x/0 is +-inf (a value), 0/0 and NaN/0 are
                # NaN; for a subtotal "sum over total" and "sum of the addends' shares" disagree there (inf vs
                # inf + NaN): unasserted
                if I >= nr or J >= nc:
                    return SKIP
                if v != v or v == 0:
                    return NANF
                return float("inf") if v > 0 else float("-inf")
            return v / den if v == v else NANF

        def blk(I, J):
            return ":" + ("intersection" if (I >= nr and J >= nc) else "inserted_row" if I >= nr
                          else "inserted_column" if J >= nc else "body")
        for name, den in (("row_share_sum", lambda I, J: rowtot[I]), ("column_share_sum", lambda I, J: coltot[J]),
                          ("total_share_sum", lambda I, J: total)):
            obs = np.asarray(getattr(part, name), dtype=float)
            # report per block so that one known defect does not hide another block
            for bname in ("body", "inserted_column", "inserted_row", "intersection"):
                exp = [[share(I, J, den(I, J)) if blk(I, J) == ":" + bname else SKIP for J in co] for I in ro]
                cmp(name, ":" + bname, obs, exp)
            outs.append(arr_bytes(obs))
        # base-cell shares add up to 1 along their direction
        rs_ = np.asarray(part.row_share_sum, dtype=float)
        cs_ = np.asarray(part.column_share_sum, dtype=float)
        br = [k for k, I in enumerate(ro) if I < nr]
        bc = [k for k, J in enumerate(co) if J < nc]
        for k in br:
            if rowtot[ro[k]] != 0:
                asserted += 1
                s = _nansum(rs_[k, bc].tolist())
                if not num_eq(s, 1.0, 1e-9, 1e-9):
                    V.append(viol("row_share_sum:sum_to_one", "row %d base cells sum to %r" % (k, s)))
                    break
        for k in bc:
            if coltot[co[k]] != 0:
                asserted += 1
                s = _nansum(cs_[br, k].tolist())
                if not num_eq(s, 1.0, 1e-9, 1e-9):
                    V.append(viol("column_share_sum:sum_to_one", "column %d base cells sum to %r" % (k, s)))
                    break
        nz = sum(1 for row in Sb for x in row if x == x and x != 0)
        nontrivial = nontrivial or (total != 0 and (nz > 1) and (bool(o.row_specs or o.col_specs) or nz > 1))
    return Res(V, nontrivial, digest(space, state[1], *outs), asserted)
