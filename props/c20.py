# encoding: utf-8
"""C20 - smoothing is a trailing moving average over categorical-date periods.

Two families of states, all through the public API:
  vec_* : the response's `mean` measure is set to EVERY vector over {0,1,2.5,NaN} of
          length L (1-D strands) or 2xL (slices); smoothed_means must be the trailing mean
  e2e_* : respondent-level data sets; smoothed column proportions / percentages / index /
          scale mean / means against the trailing mean of the PUBLIC unsmoothed output
"""

import itertools
import math

import numpy as np

from cr.cube.cube import Cube

from mc import schemas as S
from mc.common2d import subtotal, transforms_for
from mc.compare import arr_bytes, first_diff
from mc.engine import Res, Space, digest, multisets, viol
from mc.model import Schema, tabulate

ID = "C20"
RULE = ("vec spaces: every value vector over {0,1,2.5,NaN} up to the length bound x every window in "
        "{absent,None,0,1,..,L+1}; e2e spaces: (multiset of <=N respondents, window, row-subtotal "
        "config); non-trivial = smoothing applies (2<=w<=L) and the unsmoothed series is not "
        "constant; distinct = distinct smoothed tensors")
ASSUMPTIONS = ["an absent / None window means the documented default of 2",
               "smoothed outputs without any smoother entry in the transforms are unasserted"]
TRUSTED = ["numpy"]
NANF = float("nan")
VALS = (0, 1, 2.5, NANF)
ABSENT = "absent"


def windows(L):
    return [ABSENT, None, 0, 1] + list(range(2, L + 2))


def smoother_cfg(w, dim):
    sm = {"function": "one_sided_moving_avg"}
    if w != ABSENT:
        sm["window"] = w
    return {dim: {"smoother": sm}}


def eff_window(w):
    return 2 if (w == ABSENT or w is None) else w


def trailing(vec, w, L_periods, is_date):
    """Reference: arithmetic mean of the last w values, (w-1) NaN prefix; identity when the
    guards fail."""
    vec = [float(x) for x in vec]
    w = eff_window(w)
    if not is_date or w < 2 or w > L_periods or len(vec) == 0:
        return vec
    out = [NANF] * (w - 1)
    for t in range(w - 1, len(vec)):
        win = vec[t - w + 1:t + 1]
        out.append(NANF if any(x != x for x in win) else sum(win) / w)
    return out


def date_var(L, alias="d"):
    return S.cat(alias, L, "first", date=True)


def date_var_first_undated(L, alias="d"):
    """categorical-date variable whose first valid category carries no date (a date on ANY category makes it one)"""
    from mc.model import CatVar
    v = S.cat(alias, L, "first", date=True)
    cats = [dict(c) for c in v.cats]
    k = next(i for i, c in enumerate(cats) if not c.get("missing"))
    cats[k].pop("date", None)
    return CatVar(v.alias, cats)


G2 = S.cat("g", 2, "last", values=[1, 3])
C3 = S.cat("c", 3, "first")
M2 = S.mr("m", 2)
rsub = [subtotal("g12", [1, 2], anchor="top", sid=1)]
# a difference next to a plain subtotal: its smoothed row is the trailing mean of ITS unsmoothed row
rdiff = [subtotal("g1_2", [1], [2], anchor="bottom", sid=2), subtotal("g12", [1, 2], anchor="top", sid=1)]

SCHEMAS = {}
SP = {}


def _reg(name, schema, kind, **kw):
    SCHEMAS[name] = schema
    SP[name] = dict(kind=kind, schema=schema, **kw)


for _L in (1, 2, 3, 4, 5, 6):
    _reg("vec_strand_L%d" % _L, Schema("vs%d" % _L, [date_var(_L)], [("cat", 0)],
                                       numeric={"measures": ["mean"], "valid_counts": False, "with_count": True}),
         "vec1", L=_L)
for _L in (1, 2, 3, 4):
    _reg("vec_slice_L%d" % _L, S.schema2("vl%d" % _L, G2, date_var(_L),
                                         numeric={"measures": ["mean"], "valid_counts": False, "with_count": True}),
         "vec2", L=_L)
_reg("vec_strand_notdate", Schema("vsn", [C3], [("cat", 0)],
                                  numeric={"measures": ["mean"], "valid_counts": False, "with_count": True}),
     "vec1", L=3, notdate=True)
for _L in (1, 2, 3, 4):
    _reg("e2e_cat_x_date_L%d" % _L, S.schema2("e%d" % _L, G2, date_var(_L)), "e2e", L=_L,
         cfgs=[{}, {"rows": rsub}, {"rows": rdiff}], weights=(1,), quick=2 if _L < 4 else 1, thorough=3 if _L < 4 else 2)
G3n = S.cat("g", 3, "last", values=[1, None, 3])
_reg("e2e_cat_x_date_first_undated_L3", S.schema2("eu3", G2, date_var_first_undated(3)), "e2e", L=3, cfgs=[{}], weights=(1,),
     quick=2, thorough=3)
_reg("e2e_cat_x_datetime_notdate", S.schema2("edt", G2, S.enum("t", "datetime", 3)), "e2e", L=3, cfgs=[{}], weights=(1,),
     quick=2, thorough=3, notdate=True)
_reg("e2e_cat3none_x_date_L3", S.schema2("e3n", G3n, date_var(3)), "e2e", L=3, cfgs=[{}], weights=(1,), quick=2, thorough=3)
_reg("e2e_mr_x_date_L3", S.schema2("em3", M2, date_var(3)), "e2e", L=3, cfgs=[{}], weights=(1,), quick=1, thorough=2)
_reg("e2e_cat_x_cat_notdate", S.schema2("en", G2, C3), "e2e", L=3, cfgs=[{}], weights=(1,), quick=2, thorough=3,
     notdate=True)
_reg("e2e_means_cat_x_date_L3", S.schema2("emn", G2, date_var(3), numeric={"measures": ["mean"], "valid_counts": True}),
     "e2e_means", L=3, cfgs=[{}, {"rows": rsub}], weights=(1,), nums=(None, 1, 3), quick=2, thorough=2)
_reg("e2e_means_strand_L3", Schema("ems", [date_var(3)], [("cat", 0)], numeric={"measures": ["mean"], "valid_counts": True}),
     "e2e_means", L=3, cfgs=[{}], weights=(1,), nums=(None, 1, 3), quick=3, thorough=4)
PROFILES = {n: sp["schema"].profiles(sp.get("weights", (1,)), sp.get("nums", (None,)))
            for n, sp in SP.items() if sp["kind"].startswith("e2e")}


def spaces(tier):
    out = []
    for name in sorted(SP):
        sp = SP[name]
        L = sp["L"]
        W = windows(L)
        if sp["kind"] == "vec1":
            maxlen = L

            def gen(L=L, W=W):
                for vec in itertools.product(range(len(VALS)), repeat=L):
                    for wi in range(len(W)):
                        yield (vec, wi)
            out.append(Space(name, [(L, gen)], len(VALS), {"length": L, "windows": [str(w) for w in W],
                                                           "values": "0,1,2.5,NaN"}))
        elif sp["kind"] == "vec2":
            def gen(L=L, W=W):
                for vec in itertools.product(range(len(VALS)), repeat=2 * L):
                    for wi in range(len(W)):
                        yield (vec, wi)
            out.append(Space(name, [(2 * L, gen)], len(VALS), {"shape": [2, L], "windows": [str(w) for w in W]}))
        else:
            n = sp["quick"] if tier == "quick" else sp["thorough"]
            npf = len(PROFILES[name])

            def level(k, npf=npf, ncf=len(sp["cfgs"]), nw=len(W)):
                def gen():
                    for ms in multisets(npf, k):
                        for c in range(ncf):
                            for wi in range(nw):
                                yield (ms, c, wi)
                return gen
            out.append(Space(name, [(k, level(k)) for k in range(0, n + 1)], npf,
                             {"periods": L, "profiles": npf, "configs": len(sp["cfgs"]),
                              "windows": [str(w) for w in W], "max_respondents": n}))
    return out


def detail(space, state):
    sp = SP[space]
    W = windows(sp["L"])
    if sp["kind"].startswith("vec"):
        return {"space": space, "mean_values": [VALS[i] for i in state[0]], "window": W[state[1]]}
    data = [PROFILES[space][i] for i in state[0]]
    return {"space": space, "dims": sp["schema"].dims, "insertions": sp["cfgs"][state[1]], "window": W[state[2]],
            "respondents": [{"answers": r[0], "weight": r[1], "num": r[2]} for r in data]}


def _set_means(resp, sch, matrix):
    """Overwrite the mean measure: valid cells get `matrix` values, missing cells stay NA."""
    dims = resp["result"]["dimensions"]
    shape = [len(d["type"]["categories"]) for d in dims]
    valid = [[k for k, c in enumerate(d["type"]["categories"]) if not c.get("missing")] for d in dims]
    data = [{"?": -8}] * int(np.prod(shape))
    data = list(data)
    if len(shape) == 1:
        for t, k in enumerate(valid[0]):
            x = matrix[t]
            data[k] = {"?": -8} if x != x else x
    else:
        for i, ki in enumerate(valid[0]):
            for t, kt in enumerate(valid[1]):
                x = matrix[i][t]
                data[ki * shape[1] + kt] = {"?": -8} if x != x else x
    resp["result"]["measures"]["mean"]["data"] = data


def check(space, state):
    sp = SP[space]
    sch = sp["schema"]
    L = sp["L"]
    W = windows(L)
    is_date = not sp.get("notdate")
    V = []
    asserted = 0

    def cmp(name, obs, exp, w):
        nonlocal asserted
        asserted += 1
        d = first_diff(obs, exp)
        if d is not None:
            kind = name
            if w == 0:
                kind += ":window_0"
            V.append(viol(kind, "%s (window %r, %d periods) at %s: library %r, trailing mean of the unsmoothed "
                          "output %r" % (name, w, L, d[0], d[1], d[2]), output=name))

    if sp["kind"] in ("vec1", "vec2"):
        w = W[state[1]]
        vals = [VALS[i] for i in state[0]]
        resp = tabulate(sch, [])
        if sp["kind"] == "vec1":
            _set_means(resp, sch, vals)
            cube = Cube(resp, transforms=smoother_cfg(w, "rows_dimension"))
            part = cube.partitions[0]
            cmp("strand.means", part.means, vals, w)
            cmp("strand.smoothed_means", part.smoothed_means, trailing(vals, w, L, is_date), w)
            ntv = is_date and 2 <= eff_window(w) <= L and len(set(repr(v) for v in vals)) > 1
            return Res(V, ntv, digest(space, arr_bytes(np.asarray(part.smoothed_means, dtype=float))), asserted)
        mat = [vals[:L], vals[L:]]
        _set_means(resp, sch, mat)
        cube = Cube(resp, transforms=smoother_cfg(w, "columns_dimension"))
        part = cube.partitions[0]
        cmp("means", part.means, mat, w)
        cmp("smoothed_means", part.smoothed_means, [trailing(r, w, L, True) for r in mat], w)
        ntv = 2 <= eff_window(w) <= L and len(set(repr(v) for v in vals)) > 1
        return Res(V, ntv, digest(space, arr_bytes(np.asarray(part.smoothed_means, dtype=float))), asserted)

    data = [PROFILES[space][i] for i in state[0]]
    cfg = dict(sp["cfgs"][state[1]])
    w = W[state[2]]
    ndim = len(sch.dims)
    t = transforms_for(cfg)
    dimkey = "columns_dimension" if ndim == 2 else "rows_dimension"
    t.setdefault(dimkey, {}).update(smoother_cfg(w, dimkey)[dimkey])
    cube = Cube(tabulate(sch, data), transforms=t)
    part = cube.partitions[0]
    outs = []
    ntv = False

    def rows_smoothed(name_unsmoothed, mult=1.0):
        m = np.asarray(getattr(part, name_unsmoothed), dtype=float)
        return [[x * mult for x in trailing(r, w, L, is_date)] for r in m.tolist()]

    if sp["kind"] == "e2e_means":
        if ndim == 1:
            exp = trailing(np.asarray(part.means, dtype=float).tolist(), w, L, is_date)
            cmp("strand.smoothed_means", part.smoothed_means, exp, w)
        else:
            cmp("smoothed_means", part.smoothed_means, rows_smoothed("means"), w)
        outs.append(arr_bytes(np.asarray(part.smoothed_means, dtype=float)))
        m = np.asarray(part.means, dtype=float)
        ntv = 2 <= eff_window(w) <= L and np.unique(m[~np.isnan(m)]).size > 1
        return Res(V, bool(ntv), digest(space, state[1], *outs), asserted)

    cp = rows_smoothed("column_proportions")
    cmp("smoothed_column_proportions", part.smoothed_column_proportions, cp, w)
    cmp("smoothed_column_percentages", part.smoothed_column_percentages, [[100 * x for x in r] for r in cp], w)
    if sch.vars[0].kind == "CAT":
        cmp("smoothed_column_index", part.smoothed_column_index, rows_smoothed("column_index"), w)
    # smoothed scale mean = scale mean of the smoothed proportions of the base rows
    if sch.vars[0].kind == "CAT":
        vals_ = [c.get("numeric_value") for c in sch.vars[0].cats if not c.get("missing")]
        order = [int(i) for i in part.row_order()]
        exp = []
        for tcol in range(len(cp[0]) if cp else 0):
            num = den = 0.0
            nan = False
            for pos, i in enumerate(order):
                if i < 0 or vals_[i] is None:
                    continue
                p = cp[pos][tcol]
                if p != p:
                    # nansum in the numerator, plain sum in the denominator
                    den += p
                    continue
                num += vals_[i] * p
                den += p
            exp.append(num / den if den == den and den != 0 else NANF)
        cmp("smoothed_columns_scale_mean", part.smoothed_columns_scale_mean, exp, w)
    outs.append(arr_bytes(np.asarray(part.smoothed_column_proportions, dtype=float)))
    m = np.asarray(part.column_proportions, dtype=float)
    ntv = is_date and 2 <= eff_window(w) <= L and np.unique(m[~np.isnan(m)]).size > 1
    return Res(V, bool(ntv), digest(space, state[1], *outs), asserted)
