# encoding: utf-8
"""C10 - transposing the response transposes the result.

For every state the tabulator emits the response A x B and the response B x A of the SAME
respondents, with the transforms mirrored.  Output pairs are found by introspection:
row_* <-> column_*, rows_* <-> columns_*, everything else is direction-free.
"""

import copy

import numpy as np

from cr.cube.cube import Cube

from mc import schemas as S
from mc.common2d import subtotal
from mc.compare import first_diff, to_list
from mc.engine import Res, Space, digest, multisets, viol
from mc.model import Schema, tabulate

ID = "C10"
CHUNK = 40
RULE = ("states = (multiset of <=N respondents, mirrored transform config: insertions incl. differences "
        "on either/both dimensions, explicit / label / opposing-element orders, hides, prune); "
        "non-trivial = the count matrix is not symmetric-trivial (some non-zero cell) and a config "
        "other than the empty one, or >= 2 non-zero cells; distinct = distinct (config, count matrix)")
ASSUMPTIONS = ["outputs that exist in one direction only are excluded: column index, pairwise tests, "
               "smoothing, marginal sort, scale-mean pairwise indices, squared base, payload_order, "
               "name/description/variable_name/fills/alias taken from one fixed dimension",
               "tables with a categorical-date variable on BOTH dimensions are out of scope for "
               "population estimates (rows take precedence by design)"]
TRUSTED = ["numpy"]

EXCLUDE = {"name", "description", "variable_name", "rows_dimension_alias", "rows_dimension_fills",
           "column_index", "summary_pairwise_indices", "columns_squared_base", "has_scale_means", "payload_order",
           "tab_label", "tab_alias", "table_name", "cube_index", "dimension_types", "selected_category_labels",
           "pairwise_significance_tests", "min_base_size_mask", "shape", "residual_test_stats"}
EXCLUDE_PREFIX = ("smoothed_", "pairwise_", "columns_scale_mean_pairwise")

A3 = S.cat("a", 3, "mid", values=[1, None, 3], names=["b_lab", "c_lab", "a_lab"])
B2 = S.cat("b", 2, "last", values=[2, 1], names=["y", "x"])
D3 = S.cat("d", 3, "first", date=True)
M2 = S.mr("m", 2)
N3 = S.mr("n", 3)
CA = S.ca("q", 2, 3, "last")
NUM = {"measures": ["mean", "sum", "stddev", "median"], "valid_counts": True}

a_ins = [subtotal("a12", [1, 2], anchor=1, sid=1), subtotal("a3_1", [3], [1], anchor="bottom", sid=2)]
a_diff2 = [subtotal("a1_23", [1], [2, 3], anchor="top", sid=3), subtotal("a23_1", [2, 3], [1], anchor=2, sid=4)]
b_ins = [subtotal("b12", [1, 2], anchor="top", sid=5)]
b_diff = [subtotal("b1_2", [1], [2], anchor="bottom", sid=6)]

# per-variable transform fragments, keyed by variable alias; a config picks one per variable
FRAG = {
    "a": [{}, {"insertions": a_ins}, {"insertions": a_ins, "order": {"type": "explicit", "element_ids": [3, 1]}},
          {"insertions": a_ins, "elements": {"2": {"hide": True}}, "prune": True},
          {"insertions": a_diff2},
          {"order": {"type": "label"}}, {"insertions": a_ins, "order": {"type": "opposing_element", "element_id": 1,
                                                                        "measure": "count_unweighted"}},
          # a sort key that names no element of the opposing dimension: both orientations fall back to payload order
          {"insertions": a_ins, "order": {"type": "opposing_element", "element_id": 99, "measure": "count_unweighted"}}],
    "d": [{}, {"insertions": a_ins}, {"insertions": a_ins, "prune": True}, {"insertions": a_diff2}],
    "b": [{}, {"insertions": b_ins}, {"insertions": b_diff}, {"insertions": b_ins, "order": {"type": "explicit", "element_ids": [2, 1]}},
          {"elements": {"1": {"hide": True}}}, {"prune": True, "order": {"type": "label"}},
          {"insertions": b_ins + [subtotal("b2", [2], anchor="bottom", sid=7)],
           "order": {"type": "opposing_insertion", "insertion_id": 1, "measure": "count_unweighted"}},
          {"order": {"type": "opposing_element", "element_id": 99, "measure": "count_unweighted", "direction": "ascending"}},
          {"order": {"type": "opposing_insertion", "insertion_id": 99, "measure": "count_unweighted"}}],
    "m": [{}, {"order": {"type": "explicit", "element_ids": ["m_2", "m_1"]}}, {"elements": {"m_1": {"hide": True}}, "prune": True}],
    "n": [{}, {"order": {"type": "label", "direction": "ascending"}}, {"prune": True}],
    "q": [{}],
}

BASES = {
    # name: (var list, dims AxB, dims BxA, weights, nums, numeric, quickN, thoroughN)
    "cat3_x_cat2": ([A3, B2], [("cat", 0), ("cat", 1)], [("cat", 1), ("cat", 0)], (1, 2), (None,), None, 2, 3),
    # fractional weights: every rows-direction scale statistic must still mirror its columns-direction twin
    "cat3_x_cat2_fracw": ([A3, B2], [("cat", 0), ("cat", 1)], [("cat", 1), ("cat", 0)], (0.625, 0.875, 1.75), (None,), None, 2, 3),
    "cat3_x_cat2_num": ([A3, B2], [("cat", 0), ("cat", 1)], [("cat", 1), ("cat", 0)], (1,), (None, 1, 3), NUM, 1, 2),
    "cat3_x_cat2_sumna": ([A3, B2], [("cat", 0), ("cat", 1)], [("cat", 1), ("cat", 0)], (1,), (None, 1, 3),
                          {"measures": ["sum"], "valid_counts": True, "sum_empty": "na"}, 2, 2),
    "date3_x_cat2": ([D3, B2], [("cat", 0), ("cat", 1)], [("cat", 1), ("cat", 0)], (1,), (None,), None, 2, 2),
    "cat3_x_mr2": ([A3, M2], [("cat", 0), ("mr", 1)], [("mr", 1), ("cat", 0)], (1, 2), (None,), None, 1, 2),
    "mr2_x_mr3": ([M2, N3], [("mr", 0), ("mr", 1)], [("mr", 1), ("mr", 0)], (1,), (None,), None, 1, 2),
    "ca": ([CA], [("ca_items", 0), ("ca_cats", 0)], [("ca_cats", 0), ("ca_items", 0)], (1, 2), (None,), None, 2, 2),
}
SCHEMAS = {}
SCH_T = {}
PROFILES = {}
CONFIGS = {}
for _n, (_vars, _d1, _d2, _w, _nums, _num, _q, _t) in BASES.items():
    SCHEMAS[_n] = Schema(_n, _vars, _d1, weighted=len(_w) > 1, numeric=copy.deepcopy(_num))
    SCH_T[_n] = Schema(_n + "_T", _vars, _d2, weighted=len(_w) > 1, numeric=copy.deepcopy(_num))
    PROFILES[_n] = SCHEMAS[_n].profiles(_w, _nums)
    va = _vars[_d1[0][1]].alias
    vb = _vars[_d1[1][1]].alias
    CONFIGS[_n] = [(i, j) for i in range(len(FRAG[va])) for j in range(len(FRAG[vb]))] if va != vb else [(0, 0)]


def spaces(tier):
    out = []
    for name in sorted(BASES):
        q, t = BASES[name][6], BASES[name][7]
        n = q if tier == "quick" else t
        npf = len(PROFILES[name])

        def level(k, npf=npf, ncf=len(CONFIGS[name])):
            def gen():
                for ms in multisets(npf, k):
                    for c in range(ncf):
                        yield (ms, c)
            return gen
        out.append(Space(name, [(k, level(k)) for k in range(0, n + 1)], npf,
                         {"schema": name, "profiles": npf, "mirrored_configs": len(CONFIGS[name]), "max_respondents": n}))
    return out


def _transforms(space, cfg):
    vars_, d1 = BASES[space][0], BASES[space][1]
    va, vb = vars_[d1[0][1]].alias, vars_[d1[1][1]].alias
    fa, fb = copy.deepcopy(FRAG[va][cfg[0]]), copy.deepcopy(FRAG[vb][cfg[1]])
    # an opposing-element sort names an element of the OTHER variable: valid in both layouts
    t1 = {"rows_dimension": fa, "columns_dimension": fb}
    t2 = {"rows_dimension": copy.deepcopy(fb), "columns_dimension": copy.deepcopy(fa)}
    for t in (t1, t2):
        t["pairwise_indices"] = {"only_larger": False}
    return t1, t2


def detail(space, state):
    t1, t2 = _transforms(space, CONFIGS[space][state[1]])
    return {"schema": space, "dims": SCHEMAS[space].dims, "transforms": t1, "transposed_transforms": t2,
            "respondents": [{"answers": r[0], "weight": r[1], "num": r[2]} for r in (PROFILES[space][i] for i in state[0])]}


def _names(part):
    out = []
    for n in dir(type(part)):
        if n.startswith("_") or n in EXCLUDE or n.startswith(EXCLUDE_PREFIX):
            continue
        attr = getattr(type(part), n, None)
        if callable(attr) and not hasattr(attr, "_fget"):
            continue
        out.append(n)
    return out


def twin(n):
    for a, b in (("row_", "column_"), ("rows_", "columns_")):
        if n.startswith(a):
            return b + n[len(a):]
        if n.startswith(b):
            return a + n[len(b):]
    if n.startswith("inserted_row") or n.startswith("derived_row") or n.startswith("diff_row"):
        return n.replace("_row_", "_column_")
    if n.startswith("inserted_column") or n.startswith("derived_column") or n.startswith("diff_column"):
        return n.replace("_column_", "_row_")
    return n


def _get(part, n):
    try:
        return ("ok", getattr(part, n))
    except Exception as e:
        return ("exc", type(e).__name__)


def _T(v):
    if isinstance(v, np.ndarray) and v.ndim == 2:
        return v.T
    return v


def check(space, state):
    data = [PROFILES[space][i] for i in state[0]]
    cfg = CONFIGS[space][state[1]]
    t1, t2 = _transforms(space, cfg)
    p1 = Cube(tabulate(SCHEMAS[space], data), transforms=t1, population=1000, mask_size=2).partitions[0]
    p2 = Cube(tabulate(SCH_T[space], data), transforms=t2, population=1000, mask_size=2).partitions[0]
    V = []
    asserted = 0
    names = _names(p1)
    for n in names:
        m = twin(n)
        if not hasattr(type(p2), m):
            continue
        k1, v1 = _get(p1, n)
        k2, v2 = _get(p2, m)
        asserted += 1
        if k1 == "exc" or k2 == "exc":
            if (k1, v1 if k1 == "exc" else None) != (k2, v2 if k2 == "exc" else None):
                V.append(viol("pair:%s:exception" % n, "%s -> %r but transposed %s -> %r" % (n, (k1, v1), m, (k2, v2))))
            continue
        sfx = ""
        if n.endswith("margin_proportion") and np.ndim(v1) == 2:
            sfx = ":2d_fallback"
        if v1 is None or v2 is None or isinstance(v1, (str, bool)):
            if not (v1 is None and v2 is None) and v1 != v2:
                V.append(viol("pair:%s" % n, "%s = %r but transposed %s = %r" % (n, v1, m, v2)))
            continue
        d = first_diff(v1, _T(v2))
        if d is not None:
            V.append(viol("pair:%s%s" % (n, sfx), "%s at %s: %r, transposed table's %s gives %r" % (n, d[0], d[1], m, d[2])))
    # orders
    asserted += 2
    if [int(i) for i in p1.row_order()] != [int(i) for i in p2.column_order()]:
        V.append(viol("pair:row_order", "row_order %r vs transposed column_order %r" % (list(p1.row_order()), list(p2.column_order()))))
    if [int(i) for i in p1.column_order()] != [int(i) for i in p2.row_order()]:
        V.append(viol("pair:column_order", "column_order vs transposed row_order differ"))
    if tuple(p1.dimension_types) != tuple(reversed(p2.dimension_types)) or tuple(p1.shape) != tuple(reversed(p2.shape)):
        V.append(viol("pair:shape", "dimension types / shape are not mirrored"))
    m1, m2 = p1.min_base_size_mask, p2.min_base_size_mask
    for a, b in (("row_mask", "column_mask"), ("column_mask", "row_mask"), ("table_mask", "table_mask")):
        asserted += 1
        d = first_diff(np.asarray(getattr(m1, a)).astype(float), np.asarray(getattr(m2, b)).astype(float).T)
        if d is not None:
            V.append(viol("pair:min_base_size_mask.%s" % a, "mask %s is not the transpose of %s" % (a, b)))
    c = np.asarray(p1.counts, dtype=float)
    ntv = np.count_nonzero(np.nan_to_num(c)) >= (1 if cfg != (0, 0) else 2)
    return Res(V, bool(ntv), digest(space, state[1], c.tobytes()), asserted)
