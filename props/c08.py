# encoding: utf-8
"""C08 - sort-by-value ordering is monotone in the requested (public) measure."""

import copy
import itertools
import math

import numpy as np

from cr.cube.cube import Cube
from cr.cube.enums import MARGINAL, MEASURE

from mc import schemas as S
from mc.common2d import subtotal
from mc.engine import Res, Space, digest, multisets, viol
from mc.model import Schema, tabulate
from props.c07 import spec_order

ID = "C08"
RULE = ("states = (multiset of <=N respondents, sort transform: type x every sortable measure / marginal "
        "keyword (enumerated from the library's enums) x direction x fixed lists x hidden elements, incl. "
        "unresolvable keys); non-trivial = the sort key has at least two distinct non-NaN values among "
        "the sorted elements; distinct = distinct (transform, observed order)")
ASSUMPTIONS = ["sort values are read from the PUBLIC measure of an untransformed (no order / no hiding) run",
               "ties may appear in any order; fixed lists without repeats (repeats: C05)",
               "MEASURE members the library does not sort by (NotImplementedError) are unasserted"]
TRUSTED = []
STALE = 99

PUBLIC = {
    "col_base_unweighted": "column_unweighted_bases", "col_base_weighted": "column_weighted_bases",
    "col_index": "column_index", "col_percent": "column_percentages", "col_percent_moe": "column_proportions_moe",
    "col_share_sum": "column_share_sum", "col_std_dev": "column_std_dev", "col_std_err": "column_std_err",
    "mean": "means", "population": "population_counts", "population_moe": "population_counts_moe",
    "p_value": "pvals", "row_base_unweighted": "row_unweighted_bases", "row_base_weighted": "row_weighted_bases",
    "row_percent": "row_percentages", "row_percent_moe": "row_proportions_moe", "row_share_sum": "row_share_sum",
    "row_std_dev": "row_std_dev", "row_std_err": "row_std_err", "stddev": "stddev", "sum": "sums",
    "table_base_unweighted": "table_unweighted_bases", "table_base_weighted": "table_weighted_bases",
    "table_percent": "table_percentages", "table_percent_moe": "table_proportions_moe",
    "table_std_dev": "table_std_dev", "table_std_err": "table_std_err", "total_share_sum": "total_share_sum",
    "count_unweighted": "unweighted_counts", "valid_count_unweighted": "unweighted_counts",
    "count_weighted": "counts", "valid_count_weighted": "counts", "z_score": "zscores",
    "median": "medians",
}
NUMERIC_KEYS = {"mean", "stddev", "sum", "col_share_sum", "row_share_sum", "total_share_sum", "median"}
MARGINAL_PUBLIC = {"unweighted_base": "rows_base", "weighted_base": "rows_margin",
                   "table_proportion": "rows_margin_proportion", "scale_mean": "rows_scale_mean",
                   "scale_mean_stddev": "rows_scale_mean_stddev", "scale_mean_stderr": "rows_scale_mean_stderr",
                   "scale_median": "rows_scale_median"}
STRAND_PUBLIC = {"base_unweighted": "unweighted_bases", "base_weighted": "weighted_bases",
                 "count_unweighted": "unweighted_counts", "count_weighted": "counts", "mean": "means",
                 "percent": "table_percentages", "percent_moe": "table_proportion_moes",
                 "percent_stddev": "table_proportion_stddevs", "percent_stderr": "table_proportion_stderrs",
                 "population": "population_counts", "population_moe": "population_counts_moe",
                 "share_sum": "share_sum", "sum": "sums"}
ALL_MEASURES = [m.value for m in MEASURE]
ALL_MARGINALS = [m.value for m in MARGINAL]

A3 = S.cat("a", 3, "mid", names=["b_lab", "c_lab", "a_lab"])
B3 = S.cat("b", 3, "last", values=[3, 1, 2], names=["y", "x", "z"])
M2 = S.mr("m", 2)
r_plain = subtotal("s_a12", [1, 2], anchor="top", sid=1)
r_diff = subtotal("d_a3_1", [3], [1], anchor="bottom", sid=2)
c_plain = subtotal("t_b23", [2, 3], anchor=1, sid=7)

FIXED = [None, {"top": [3]}, {"bottom": [1, STALE]}, {"top": [2], "bottom": [3]}]
HIDDEN = [(), (1,)]

NUM = {"measures": ["mean", "sum", "stddev"], "valid_counts": True}

BASES = {
    # name: schema, weights, nums, quickN, thoroughN
    "rows_cat_x_cat": (S.schema2("rows_cat_x_cat", A3, B3, weighted=True), (1, 2), (None,), 2, 2),
    # thorough only: one respondent more, all weights 1
    "rows_cat_x_cat_unw": (S.schema2("rows_cat_x_cat_unw", A3, B3, weighted=True), (1,), (None,), 0, 3),
    "cols_cat_x_cat_unw": (S.schema2("cols_cat_x_cat_unw", B3, A3, weighted=True), (1,), (None,), 0, 3),
    "strand_mr_unw": (Schema("strand_mr_unw", [S.mr("m", 3)], [("mr", 0)], weighted=True), (1,), (None,), 0, 3),
    "rows_cat_x_cat_num": (S.schema2("rows_cat_x_cat_num", A3, B3, numeric=dict(NUM)), (1,), (1, 3), 2, 2),
    # numeric answers of both signs: sums cancel, so shares of a zero total are +-inf (a VALUE, not NaN)
    "rows_cat_x_cat_pm_num": (S.schema2("rows_cat_x_cat_pm_num", A3, B3, numeric={"measures": ["sum"], "valid_counts": True}),
                              (1,), (1, -1), 2, 3),
    "strand_cat_pm_num": (Schema("strand_cat_pm_num", [A3], [("cat", 0)], numeric={"measures": ["sum"], "valid_counts": True}),
                          (1,), (1, -1), 3, 4),
    # heavy weights: p-values far below 1e-10 are distinct sort keys, not ties
    "rows_cat_x_cat_heavy": (S.schema2("rows_cat_x_cat_heavy", A3, B3, weighted=True), (40, 90), (None,), 3, 3),
    # a datetime rows dimension: fixed lists and hides are written with its numeric element ids
    "rows_datetime_x_cat": (S.schema2("rows_datetime_x_cat", S.enum("e", "datetime", 3), B3), (1,), (None,), 2, 3),
    "rows_cat_x_mr": (S.schema2("rows_cat_x_mr", A3, M2), (1,), (None,), 2, 2),
    "rows_mr_x_cat": (S.schema2("rows_mr_x_cat", M2, B3), (1,), (None,), 2, 2),
    "cols_cat_x_cat": (S.schema2("cols_cat_x_cat", B3, A3, weighted=True), (1, 2), (None,), 2, 2),
    "strand_cat": (Schema("strand_cat", [A3], [("cat", 0)], weighted=True), (1, 2), (None,), 3, 4),
    "strand_mr": (Schema("strand_mr", [S.mr("m", 3)], [("mr", 0)], weighted=True), (1, 2), (None,), 2, 2),
    # deeper data on a two-item MR strand (items get different bases only with >= 4 respondents)
    "strand_mr2_deep": (Schema("strand_mr2_deep", [S.mr("m", 2)], [("mr", 0)]), (1,), (None,), 4, 5),
    "strand_cat_num": (Schema("strand_cat_num", [A3], [("cat", 0)], numeric=dict(NUM)), (1,), (None, 1, 3), 3, 4),
}
SCHEMAS = {k: v[0] for k, v in BASES.items()}


QUICK_DF = [(None, 0), ("ascending", 0), (None, 1), ("ascending", 3), ("descending", 2)]


def _orders(name, tier):
    """list of order dicts for the sorted dimension of space `name`."""
    out = []
    numeric = name.endswith("_num")
    pairs = QUICK_DF if tier == "quick" else [(d, f) for d in (None, "ascending", "descending")
                                               for f in range(len(FIXED))]

    def add(o):
        for d, fi in pairs:
            oo = dict(o)
            if d:
                oo["direction"] = d
            if FIXED[fi]:
                oo["fixed"] = copy.deepcopy(FIXED[fi])
            out.append(oo)
    meas = [m for m in ALL_MEASURES if (m in NUMERIC_KEYS) == numeric or m in ("count_unweighted",)]
    if "_pm_" in name:
        meas = ["sum", "col_share_sum", "row_share_sum", "total_share_sum"]
    if name.endswith("_heavy"):
        for m in ("p_value", "z_score"):
            for d in (None, "ascending"):
                for eid in (1, 2):
                    o = {"type": "opposing_element", "element_id": eid, "measure": m}
                    if d:
                        o["direction"] = d
                    out.append(o)
        return out
    if name.startswith("rows_cat_x_cat"):
        for m in meas:
            for eid in (1, 3):
                add({"type": "opposing_element", "element_id": eid, "measure": m})
            add({"type": "opposing_insertion", "insertion_id": 7, "measure": m})
        if "_pm_" in name:
            return out
        add({"type": "opposing_element", "element_id": STALE, "measure": "col_percent"})
        add({"type": "opposing_insertion", "insertion_id": 55, "measure": "col_percent"})
        add({"type": "opposing_element", "element_id": 1, "measure": "no_such_measure"})
        add({"type": "opposing_element", "element_id": 1, "measure": "sum" if not numeric else "median"})
        for mg in ALL_MARGINALS + ["no_such_marginal"]:
            add({"type": "marginal", "marginal": mg})
        add({"type": "label"})
        add({"type": "no_such_type"})
    elif name == "rows_datetime_x_cat":
        for m in ("col_percent", "count_unweighted", "row_percent"):
            add({"type": "opposing_element", "element_id": 2, "measure": m})
        add({"type": "label"})
        add({"type": "marginal", "marginal": "unweighted_base"})
    elif name == "rows_cat_x_mr":
        for m in ("col_percent", "count_unweighted", "row_percent", "z_score", "table_base_unweighted"):
            add({"type": "opposing_element", "element_id": "m_2", "measure": m})
        add({"type": "label"})
    elif name == "rows_mr_x_cat":
        for m in ("col_percent", "count_unweighted", "row_percent", "col_index"):
            add({"type": "opposing_element", "element_id": 2, "measure": m})
        add({"type": "label"})
    elif name.startswith("cols_cat_x_cat"):
        for m in [x for x in ALL_MEASURES if x not in NUMERIC_KEYS]:
            add({"type": "opposing_element", "element_id": 2, "measure": m})
            add({"type": "opposing_insertion", "insertion_id": 7, "measure": m})
        add({"type": "opposing_element", "element_id": STALE, "measure": "row_percent"})
        add({"type": "label"})
    elif name == "strand_mr2_deep":
        for m in STRAND_PUBLIC:
            if m in ("mean", "sum", "share_sum"):
                continue
            for d in (None, "ascending"):
                o = {"type": "univariate_measure", "measure": m}
                if d:
                    o["direction"] = d
                out.append(o)
    elif name == "strand_cat_pm_num":
        for m in ("sum", "share_sum"):
            add({"type": "univariate_measure", "measure": m})
    elif name.startswith("strand"):
        keys = list(STRAND_PUBLIC) + ["no_such_measure", "median"]
        for m in keys:
            add({"type": "univariate_measure", "measure": m})
        add({"type": "label"})
    return out


ORDERS = {t: {k: _orders(k, t) for k in BASES} for t in ("quick", "thorough")}
PROFILES = {"thorough": {k: v[0].profiles(v[1], v[2]) for k, v in BASES.items()},
            "quick": {k: v[0].profiles(v[1] if k.endswith("_heavy") else (1,), v[2]) for k, v in BASES.items()}}


def spaces(tier):
    out = []
    for name in sorted(BASES):
        sch, w, nums, q, t = BASES[name]
        n = q if tier == "quick" else t
        if n == 0:
            continue
        npf = len(PROFILES[tier][name])
        tq = 0 if tier == "quick" else 1

        def level(k, npf=npf, no=len(ORDERS[tier][name]), tq=tq):
            def gen():
                for ms in multisets(npf, k):
                    for o in range(no):
                        for h in range(len(HIDDEN)):
                            yield (ms, o, h, tq)
            return gen
        out.append(Space(name, [(k, level(k)) for k in range(1, n + 1)], npf,
                         {"schema": name, "profiles": npf, "order_transforms": len(ORDERS[tier][name]),
                          "hidden_options": len(HIDDEN), "max_respondents": n}))
    return out


def _dims(space):
    sorted_is_cols = space.startswith("cols")
    strand = space.startswith("strand")
    return sorted_is_cols, strand


def _transforms(space, order, hidden):
    sorted_is_cols, strand = _dims(space)
    sch = SCHEMAS[space]
    sdim = "columns_dimension" if sorted_is_cols else "rows_dimension"
    odim = "rows_dimension" if sorted_is_cols else "columns_dimension"
    svar = sch.vars[sch.dims[1 if sorted_is_cols else 0][1]]
    t = {sdim: {}}
    if svar.kind == "CAT":
        t[sdim]["insertions"] = [r_plain, r_diff]
        ids = svar.valid_ids
    elif svar.kind == "ENUM":
        ids = svar.valid_ids
    else:
        ids = [it["alias"] for it in svar.items]
    if not strand:
        ovar = sch.vars[sch.dims[0 if sorted_is_cols else 1][1]]
        if ovar.kind == "CAT":
            t[odim] = {"insertions": [c_plain]}
    base_t = {k: dict(v) for k, v in t.items()}
    if order is not None:
        order = copy.deepcopy(order)
        if svar.kind == "ENUM" and order.get("fixed"):
            # element ids of the datetime dimension are 0-based: shift the category-style ids 1..3 of the alphabet
            order["fixed"] = {k: [x - 1 if isinstance(x, int) and x != STALE else x for x in v]
                              for k, v in order["fixed"].items()}
        elif svar.kind != "CAT" and order.get("fixed"):
            # fixed lists are written with category ids; on an array dimension name the
            # items by alias (other spellings are C19's subject)
            order["fixed"] = {k: ["m_%s" % x for x in v] for k, v in order["fixed"].items()}
        t[sdim]["order"] = order
    if hidden:
        t[sdim]["elements"] = {str(ids[i]): {"hide": True} for i in hidden if i < len(ids)}
    return t, base_t, ids


def _tier(state):
    return "thorough" if state[3] else "quick"


def detail(space, state):
    order = ORDERS[_tier(state)][space][state[1]]
    t, base_t, ids = _transforms(space, order, HIDDEN[state[2]])
    return {"schema": space, "dims": SCHEMAS[space].dims, "transforms": t,
            "respondents": [{"answers": r[0], "weight": r[1], "num": r[2]}
                            for r in (PROFILES[_tier(state)][space][i] for i in state[0])]}


def _isnan(x):
    try:
        return math.isnan(x)
    except TypeError:
        return False


def _group_ok(vals_in_order, idx_in_order, descending):
    """monotone among non-NaN, NaN last, NaN in ascending index (payload/definition) order"""
    seen_nan = False
    prev = None
    last_nan_idx = None
    for v, i in zip(vals_in_order, idx_in_order):
        if _isnan(v):
            if last_nan_idx is not None and i < last_nan_idx:
                return "NaN-valued vectors are not in payload order"
            seen_nan = True
            last_nan_idx = i
            continue
        if seen_nan:
            return "a valued vector follows a NaN-valued one"
        if prev is not None and not isinstance(v, str) and (math.isinf(v) or math.isinf(prev)):
            if (descending and v > prev) or (not descending and v < prev):
                return "not %s: %r after %r" % ("descending" if descending else "ascending", v, prev)
        elif prev is not None:
            if descending and v > prev + 1e-12 * abs(prev) if not isinstance(v, str) else (descending and v > prev):
                return "not descending: %r after %r" % (v, prev)
            if not descending and (v < prev - 1e-12 * abs(prev) if not isinstance(v, str) else v < prev):
                return "not ascending: %r after %r" % (v, prev)
        prev = v
    return None


def check(space, state):
    sorted_is_cols, strand = _dims(space)
    sch = SCHEMAS[space]
    data = [PROFILES[_tier(state)][space][i] for i in state[0]]
    order = ORDERS[_tier(state)][space][state[1]]
    hidden = HIDDEN[state[2]]
    t, base_t, ids = _transforms(space, order, hidden)
    resp = tabulate(sch, data)
    V = []
    # the library rewrites transform dicts in place: never hand it an object that another
    # state will use again
    part = Cube(resp, transforms=copy.deepcopy(t), population=1000).partitions[0]
    base = Cube(tabulate(sch, data), transforms=copy.deepcopy(base_t), population=1000).partitions[0]
    n = len(ids)
    svar = sch.vars[sch.dims[1 if sorted_is_cols else 0][1]]
    nsub = 2 if svar.kind == "CAT" else 0
    try:
        obs = [int(i) for i in (part.column_order() if sorted_is_cols else part.row_order())]
    except NotImplementedError:
        return Res([], False, digest(space, state[1], "NotImplemented"), 0)
    hid = set(i for i in hidden if i < n)
    visible = [i for i in range(n) if i not in hid]
    expected_set = set(visible) | set(range(-nsub, 0))
    asserted = 1
    if sorted(obs) != sorted(expected_set):
        V.append(viol("sort:membership", "order %r does not list exactly the visible vectors %r"
                      % (obs, sorted(expected_set))))
        return Res(V, False, digest(space, state[1], repr(obs)), asserted)

    # ---- the sort key: public values of the untransformed run, indexed by signed idx
    typ = order.get("type")
    key = {}
    resolvable = True
    base_ro = [int(i) for i in base.row_order()]
    base_co = [] if strand else [int(i) for i in base.column_order()]
    try:
        if typ == "label":
            labels = list(base.column_labels if sorted_is_cols else base.row_labels)
            bo = base_co if sorted_is_cols else base_ro
            key = {i: str(labels[p]) for p, i in enumerate(bo)}
        elif typ == "marginal":
            name = MARGINAL_PUBLIC.get(order["marginal"])
            if name is None:
                resolvable = False
            else:
                vec = getattr(base, name)
                if vec is None:
                    resolvable = False
                else:
                    vec = np.asarray(vec, dtype=float)
                    if vec.ndim != 1:
                        resolvable = False
                    else:
                        key = {i: vec[p] for p, i in enumerate(base_ro)}
        elif typ == "univariate_measure":
            name = STRAND_PUBLIC.get(order["measure"])
            if name is None:
                resolvable = False
            else:
                vec = np.asarray(getattr(base, name), dtype=float)
                key = {i: vec[p] for p, i in enumerate(base_ro)}
        elif typ in ("opposing_element", "opposing_insertion"):
            mname = order["measure"]
            if mname not in ALL_MEASURES:
                resolvable = False
            else:
                pub = PUBLIC.get(mname)
                if pub is None:
                    return Res([], False, digest(space, state[1], "unsortable"), 0)
                mat = np.asarray(getattr(base, pub), dtype=float)
                # locate the opposing vector in the base run's display
                if typ == "opposing_element":
                    ovar = sch.vars[sch.dims[0 if sorted_is_cols else 1][1]]
                    oids = ovar.valid_ids if ovar.kind == "CAT" else [it["alias"] for it in ovar.items]
                    eid = order["element_id"]
                    if eid not in oids:
                        resolvable = False
                    else:
                        target = oids.index(eid)
                else:
                    if order["insertion_id"] != 7:
                        resolvable = False
                    else:
                        target = -1
                if resolvable:
                    if sorted_is_cols:
                        pos = base_ro.index(target)
                        key = {j: mat[pos, p] for p, j in enumerate(base_co)}
                    else:
                        pos = base_co.index(target)
                        key = {i: mat[p, pos] for p, i in enumerate(base_ro)}
        else:
            resolvable = False
    except ValueError:
        resolvable = False          # measure not in the response

    if not resolvable:
        # falls back to the anchored payload order
        anchors = ["top", "bottom"] if nsub else []
        exp = [e[1] if e[0] == "e" else e[1] - nsub for e in spec_order(list(range(n)), None,
               [("top" if a == "top" else "bottom") for a in anchors], hid)]
        asserted += 1
        if obs != exp:
            V.append(viol("sort:fallback", "unresolvable key %r: order %r, anchored payload order is %r"
                          % (order, obs, exp)))
        return Res(V, False, digest(space, state[1], repr(obs)), asserted)

    descending = order.get("direction", "descending") != "ascending"
    # ---- subtotal group first (descending) / last (ascending)
    subs = [i for i in obs if i < 0]
    rest = [i for i in obs if i >= 0]
    asserted += 1
    want = subs + rest if descending else rest + subs
    if obs != want:
        V.append(viol("sort:subtotal_group_position", "subtotals must be %s: order %r"
                      % ("first" if descending else "last", obs)))
    # ---- fixed top / bottom bracket the body in listed order
    fixed = (t["columns_dimension" if sorted_is_cols else "rows_dimension"].get("order") or {}).get("fixed") or {}
    top = [ids.index(x) for x in fixed.get("top", []) if x in ids]
    bot = [ids.index(x) for x in fixed.get("bottom", []) if x in ids]
    top_v = [i for i in top if i not in hid]
    bot_v = [i for i in bot if i not in hid]
    asserted += 1
    if rest[:len(top_v)] != top_v or (bot_v and rest[-len(bot_v):] != bot_v):
        V.append(viol("sort:fixed_brackets", "fixed top %r / bottom %r do not bracket %r" % (top_v, bot_v, rest)))
        return Res(V, False, digest(space, state[1], repr(obs)), asserted)
    body = rest[len(top_v):len(rest) - len(bot_v)]
    asserted += 2
    why = _group_ok([key[i] for i in body], body, descending)
    if why:
        kindsfx = ":" + (order.get("measure") or order.get("marginal") or typ)
        V.append(viol("sort:body_not_monotone" + kindsfx, "%s; keys %r for order %r (transform %r)"
                      % (why, [key[i] for i in body], body, order)))
    why = _group_ok([key[i] for i in subs], subs, descending)
    if why:
        kindsfx = ":" + (order.get("measure") or order.get("marginal") or typ)
        if order.get("measure") in ("population", "population_moe") and _isnan(key.get(-1, 0.0)):
            kindsfx += ":difference_sorted_by_surrogate"
        V.append(viol("sort:subtotals_not_monotone" + kindsfx, "%s; keys %r for subtotals %r (transform %r)"
                      % (why, [key[i] for i in subs], subs, order)))
    vals = [key[i] for i in body if not _isnan(key[i])]
    ntv = len(set(vals)) > 1
    return Res(V, ntv, digest(space, state[1], repr(obs)), asserted)
