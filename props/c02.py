# encoding: utf-8
"""C02 - bases and margins count exactly the respondents eligible for the denominator."""

import numpy as np

from cr.cube.cube import Cube

from mc.common2d import Reg, display_map, expected_display, std_pairings, transforms_for, with_subtotals
from mc.compare import arr_bytes, first_diff, to_list
from mc.engine import Res, digest, viol
from mc.model import tabulate

ID = "C02"
CHUNK = 100
RULE = ("states = (multiset of <=N respondents, insertion config) per schema, all enumerated; "
        "non-trivial = some cell has a positive table base; distinct = distinct (schema, base "
        "tensors observed)")
ASSUMPTIONS = ["subtotals here are plain (no subtrahends): differences belong to C04",
               "weights {1,2}; N and dimension sizes as listed per space"]
TRUSTED = ["numpy"]

REG = std_pairings(Reg())
# SQUARE tables with per-item bases on the columns (a base vector that could be read along the wrong axis)
from mc import schemas as _S   # noqa: E402
from mc.common2d import subtotal as _subtotal   # noqa: E402
from mc.model import Schema as _Schema   # noqa: E402
REG.add(_S.schema2("cat3_x_mr3_square", _S.cat("a", 3, "mid"), _S.mr("m", 3), weighted=True), (1, 2), configs=[{}],
        quick=2, thorough=2)
REG.add(_S.schema2("cat2sub_x_mr3_square", _S.cat("a", 2, "last"), _S.mr("m", 3)), configs=[
        {"rows": [_subtotal("r12", [1, 2], anchor="bottom", sid=1)]}], quick=2, thorough=3)
_CA33 = _S.ca("q", 3, 3, "last")
REG.add(_Schema("ca_cats3_x_items3_square", [_CA33], [("ca_cats", 0), ("ca_items", 0)]), configs=[{}], quick=2, thorough=2)
# tables with subtotal DIFFERENCES (their own-direction base is NaN, C04): the mask relation alone
_A3d, _B3d = _S.cat("a", 3, "mid"), _S.cat("b", 3, "first")
REG.add(_S.schema2("diffmask_cat3_x_cat3", _A3d, _B3d, weighted=True), (1, 2), configs=[
        {"rows": [_subtotal("r1_2", [1], [2], anchor="top", sid=1), _subtotal("r12", [1, 2], anchor="bottom", sid=2)],
         "cols": [_subtotal("c23_1", [2, 3], [1], anchor=1, sid=1)]}], quick=2, thorough=3)
SCHEMAS = REG.schemas


def _check_diffmask(space, state):
    """mask == (the partition's own unweighted base < threshold); a NaN base is not below any threshold"""
    sch = REG.schemas[space]
    data = REG.dataset(space, state)
    cfg = REG.config(space, state)
    V, asserted, outs = [], 0, []
    for t in (1, 2, 3):
        part = Cube(tabulate(sch, data), transforms=transforms_for(cfg), mask_size=t).partitions[0]
        m = part.min_base_size_mask
        for mname, bname in (("row_mask", "row_unweighted_bases"), ("column_mask", "column_unweighted_bases"),
                             ("table_mask", "table_unweighted_bases")):
            b = np.asarray(getattr(part, bname), dtype=float)
            with np.errstate(invalid="ignore"):
                want = b < t
            asserted += 1
            d = first_diff(getattr(m, mname), want.tolist())
            if d is not None:
                V.append(viol("diffmask:%s@%d" % (mname, t), "%s cell %s: %r, but the unweighted base there is %r (threshold %d)"
                              % (mname, d[0], d[1], b[tuple(d[0])], t), output=mname))
        outs.append(arr_bytes(np.asarray(m.row_mask, dtype=float)))
    return Res(V, len(data) > 0, digest(space, state[1], *outs), asserted)


# ---- multitable cube set whose second cube is a single-column filter over a text variable: the
# ---- server omits the rows the filter did not count and the library re-inflates the response
FS = "cubeset_filter_column"
FS_PROFILES = [(v, f) for v in range(3) for f in (0, 1)]      # (text value, inside the filter?)
FS_MINBASE = (1, 2, 3)


def _fs_space(tier):
    from mc.engine import Space, multisets
    n = 3 if tier == "quick" else 5

    def level(k):
        def gen():
            for ms in multisets(len(FS_PROFILES), k):
                for mb in range(len(FS_MINBASE)):
                    yield (ms, mb)
        return gen
    return Space(FS, [(k, level(k)) for k in range(1, n + 1)], len(FS_PROFILES),
                 {"profiles": len(FS_PROFILES), "min_base": list(FS_MINBASE), "max_respondents": n})


def _fs_responses(state):
    from mc import schemas as S
    from mc.model import Schema
    T3 = S.enum("txt", "text", 3, has_missing=False)
    sch = Schema("sum", [T3], [("enum", 0)])
    people = [FS_PROFILES[i] for i in state[0]]
    r0 = tabulate(sch, [((v,), 1, None) for v, _f in people])
    inside = [v for v, f in people if f]
    r1 = tabulate(sch, [((v,), 1, None) for v in inside])
    res = r1["result"]
    els = res["dimensions"][0]["type"]["elements"]
    keep = [k for k, e in enumerate(els) if res["counts"][k] > 0]
    res["dimensions"][0]["type"]["elements"] = [els[k] for k in keep]
    res["counts"] = [res["counts"][k] for k in keep]
    res["measures"]["count"]["data"] = [res["measures"]["count"]["data"][k] for k in keep]
    res["is_single_col_cube"] = True
    return people, inside, [r0, r1]


def _check_fs(state):
    from cr.cube.cube import CubeSet
    people, inside, resps = _fs_responses(state)
    mb = FS_MINBASE[state[1]]
    V, asserted = [], 0
    cs = CubeSet(resps, [{}, {}], 1000, mb)
    parts = cs.partition_sets[0]
    for ci, (part, pop) in enumerate(zip(parts, ([v for v, _ in people], inside))):
        counts = [sum(1 for v in pop if v == k) for k in range(3)]
        base = len(pop)
        for name, obs, exp in (("counts", part.unweighted_counts, counts),
                               ("unweighted_bases", part.unweighted_bases, [base] * 3),
                               ("min_base_size_mask", part.min_base_size_mask, [base < mb] * 3)):
            asserted += 1
            d = first_diff(obs, exp)
            if d is not None:
                V.append(viol("cubeset:cube%d:%s" % (ci, name), "cube %d %s at %s: library %r, respondents give %r "
                              "(min_base %d)" % (ci, name, d[0], d[1], d[2], mb), output=name))
    # the same transforms apply to every cube of the set: hide the second text value, reverse the order
    tr = {"rows_dimension": {"elements": {"1": {"hide": True}}, "order": {"type": "explicit", "element_ids": [2, 0]}}}
    import copy as _copy
    cs2 = CubeSet(_copy.deepcopy(resps), [_copy.deepcopy(tr), _copy.deepcopy(tr)], 1000, mb)
    for ci, (part, pop) in enumerate(zip(cs2.partition_sets[0], ([v for v, _ in people], inside))):
        want = [sum(1 for v in pop if v == k) for k in (2, 0)]
        asserted += 1
        d = first_diff(part.unweighted_counts, want)
        if d is not None:
            V.append(viol("cubeset:cube%d:transformed_counts" % ci, "cube %d with rows [hide value 1, order 2,0]: "
                          "unweighted_counts %r, expected %r" % (ci, list(part.unweighted_counts), want), output="unweighted_counts"))
    ntv = 0 < len(inside) and len(set(inside)) < 3
    return Res(V, ntv, digest(FS, state[1], arr_bytes(parts[1].unweighted_counts)), asserted)


def spaces(tier):
    return REG.spaces(tier) + [_fs_space(tier)]


def detail(space, state):
    if space == FS:
        people, inside, resps = _fs_responses(state)
        return {"respondents": [{"text_value": v, "in_filter": bool(f)} for v, f in people],
                "min_base": FS_MINBASE[state[1]], "responses": resps}
    return REG.detail(space, state)


BASES = [("row_weighted_bases", "row_base", True), ("row_unweighted_bases", "row_base", False),
         ("column_weighted_bases", "col_base", True), ("column_unweighted_bases", "col_base", False),
         ("table_weighted_bases", "table_base", True), ("table_unweighted_bases", "table_base", False)]


def check(space, state):
    if space == FS:
        return _check_fs(state)
    if space.startswith("diffmask"):
        return _check_diffmask(space, state)
    sch, data, cfg, cube, oracles = REG.build(space, state)
    V = []
    asserted = 0
    outs = []
    nontrivial = False

    def cmp(name, obs, exp, extra=""):
        nonlocal asserted
        asserted += 1
        d = first_diff(obs, exp)
        if d is not None:
            V.append(viol("%s%s" % (name, extra),
                          "%s cell %s: library %r, respondents give %r" % (name, d[0], d[1], d[2]),
                          output=name, cell=list(d[0])))

    for part, (kind, _lbl, orc) in zip(cube.partitions, oracles):
        if kind == "strand":
            rows = orc.rows
            n = len(rows)
            ins = cfg.get("rows") or []
            order = [int(i) for i in part.row_order()]
            ub, wb = orc.bases(False), orc.bases(True)
            uc, wc = orc.counts(False), orc.counts(True)

            def vec(base, sub):
                return [base[i] if i >= 0 else sub for i in order]
            # a subtotal row's base is the table base (only CAT strands have subtotals)
            cmp("strand.unweighted_bases", part.unweighted_bases, vec(ub, ub[0] if ub else 0))
            cmp("strand.weighted_bases", part.weighted_bases, vec(wb, wb[0] if wb else 0))
            cmp("strand.table_base_range", part.table_base_range, [min(ub), max(ub)])
            cmp("strand.table_margin_range", part.table_margin_range, [min(wb), max(wb)])
            # rows_base / rows_margin of a strand are its (un)weighted counts
            subs_u = [sum(uc[rows.ids.index(i)] for i in s["kwargs"]["positive"] if i in rows.ids) for s in ins]
            subs_w = [sum(wc[rows.ids.index(i)] for i in s["kwargs"]["positive"] if i in rows.ids) for s in ins]
            cmp("strand.rows_base", part.rows_base, [uc[i] if i >= 0 else subs_u[len(ins) + i] for i in order])
            cmp("strand.rows_margin", part.rows_margin, [wc[i] if i >= 0 else subs_w[len(ins) + i] for i in order])
            for t in (1, 2):
                p2 = Cube(tabulate(sch, data), transforms=transforms_for(cfg), mask_size=t).partitions[0]
                cmp("strand.min_base_size_mask", p2.min_base_size_mask,
                    [b < t for b in vec(ub, ub[0] if ub else 0)], "@%d" % t)
            outs.append(arr_bytes(part.unweighted_bases, part.weighted_bases))
            nontrivial = nontrivial or max(ub) > 0
            continue

        o = with_subtotals(orc, cfg)
        allw, allu = o.all(True), o.all(False)
        exp = {}
        for name, what, weighted in BASES:
            src = allw if weighted else allu
            exp[name] = expected_display(part, o, lambda i, j, src=src, what=what: src[what][i][j])
            cmp(name, getattr(part, name), exp[name])
        ro = display_map(part.row_order(), o.n_base_rows, len(o.row_specs))
        co = display_map(part.column_order(), o.n_base_cols, len(o.col_specs))
        rows_arr, cols_arr = o.rows.array, o.cols.array
        # ---- 1-D margins are the collapsed per-cell bases; 2-D fallback IS the per-cell array
        for name, src, what in (("rows_margin", allw, "row_base"), ("rows_base", allu, "row_base")):
            want = [[src[what][i][j] for j in co] for i in ro] if cols_arr else [src[what][i][0] for i in ro]
            cmp(name, getattr(part, name), want)
        for name, src, what in (("columns_margin", allw, "col_base"), ("columns_base", allu, "col_base")):
            want = [[src[what][i][j] for j in co] for i in ro] if rows_arr else [src[what][0][j] for j in co]
            cmp(name, getattr(part, name), want)
        for name, src in (("table_margin", allw), ("table_base", allu)):
            tb = src["table_base"]
            if not rows_arr and not cols_arr:
                want = tb[0][0]
            elif not rows_arr:
                want = [tb[0][j] for j in co]
            elif not cols_arr:
                want = [tb[i][0] for i in ro]
            else:
                want = [[tb[i][j] for j in co] for i in ro]
            cmp(name, getattr(part, name), want)
        for name, src in (("table_margin_range", allw), ("table_base_range", allu)):
            vals = [src["table_base"][i][j] for i in range(o.n_base_rows) for j in range(o.n_base_cols)]
            cmp(name, getattr(part, name), [min(vals), max(vals)])
        # ---- minimum-base mask == (unweighted base < threshold)
        for t in (1, 2):
            p2 = Cube(tabulate(sch, data), transforms=transforms_for(cfg), mask_size=t).partitions[0]
            m = p2.min_base_size_mask
            cmp("min_base_size_mask.row_mask", m.row_mask,
                [[b < t for b in row] for row in exp["row_unweighted_bases"]], "@%d" % t)
            cmp("min_base_size_mask.column_mask", m.column_mask,
                [[b < t for b in row] for row in exp["column_unweighted_bases"]], "@%d" % t)
            cmp("min_base_size_mask.table_mask", m.table_mask,
                [[b < t for b in row] for row in exp["table_unweighted_bases"]], "@%d" % t)
        outs.append(arr_bytes(part.row_weighted_bases, part.column_weighted_bases,
                              part.table_unweighted_bases))
        nontrivial = nontrivial or any(x > 0 for row in allu["table_base"] for x in row)
    return Res(V, nontrivial, digest(space, state[1], *outs), asserted)
