# encoding: utf-8
"""C11 - variance, standard error and margin of error of proportions.

Oracle: the weighted variance, among the respondents in the proportion's base, of the
indicator that is +1 for members of the cell's addends, -1 for members of its
subtrahends and 0 otherwise; sd = sqrt(var); se = sqrt(var / weighted base);
MoE = 1.959964 * se.
"""

import math

import numpy as np

from mc import schemas as S
from cr.cube.cube import Cube

from mc.common2d import (SCALES, Reg, SignedSlice, reverse_read, scale_invariant, scaled_parts, std_pairings, subtotal,
                         transforms_for)
from mc.compare import arr_bytes, first_diff
from mc.engine import Res, digest, viol
from mc.model import Schema, tabulate

ID = "C11"
CHUNK = 100
RULE = ("states = (multiset of <=N respondents, insertion config incl. differences and both-"
        "dimension insertions); non-trivial = some cell has a variance > 0; distinct = distinct "
        "variance tensors per schema")
ASSUMPTIONS = ["addend and subtrahend sets are disjoint (the indicator is ambiguous otherwise)",
               "categorical-date wave differences are excluded (their proportion is not the mean "
               "of an indicator)", "weights {1,2}"]
TRUSTED = ["numpy", "math.sqrt"]
Z = 1.959964
NANF = float("nan")


def _build():
    reg = std_pairings(Reg())
    A3 = S.cat("a", 3, "mid")
    B3 = S.cat("b", 3, "first")
    M = S.mr("m", 2)
    d1 = subtotal("d12", [1], [2], anchor="top", sid=1)
    d2 = subtotal("d12_3", [1, 2], [3], anchor=1, sid=2)
    p1 = subtotal("p23", [2, 3], anchor="bottom", sid=3)
    d3 = subtotal("d1_23", [1], [2, 3], anchor="bottom", sid=4)     # several subtrahends
    p123 = subtotal("p123", [1, 2, 3], anchor="top", sid=5)
    p12 = subtotal("p12", [1, 2], anchor=2, sid=6)
    cfgs = [{"rows": [d1]}, {"cols": [d1]}, {"rows": [d2, p1]}, {"cols": [d2, p1]},
            {"rows": [d1], "cols": [p1]}, {"rows": [p1], "cols": [d2]}, {"rows": [d1], "cols": [d2]},
            # plain subtotal (2-3 addends) x difference with 1-2 subtrahends, both ways round
            {"rows": [d3], "cols": [p1, p123]}, {"rows": [p12, p123], "cols": [d3]},
            {"rows": [d3, d2], "cols": [p12]}, {"rows": [p1], "cols": [d3, d2]}]
    reg.add(S.schema2("diff_cat3_x_cat3", A3, B3, weighted=True), (1, 2), configs=cfgs, quick=2, thorough=3)
    reg.add(S.schema2("diff_cat3_x_mr", A3, M), configs=[{"rows": [d1]}, {"rows": [d2, p1]}], quick=2, thorough=3)
    reg.add(S.schema2("diff_mr_x_cat3", M, B3), configs=[{"cols": [d1]}, {"cols": [d2, p1]}], quick=2, thorough=3)
    # a response carrying a numeric mean with valid counts: a difference's count is NaN there (C04), so is its
    # proportion in every direction, hence every variance / error of a difference cell must be NaN
    reg.add(S.schema2("diff_num_cat3_x_cat3", A3, B3, weighted=True, numeric={"measures": ["mean"], "valid_counts": True}),
            (1, 2), (None, 1), configs=[{"rows": [d1]}, {"cols": [d1]}, {"rows": [d2, p1], "cols": [p12]}], quick=2, thorough=3)
    # fractional weights: weighted bases between 0 and 1
    reg.add(S.schema2("fracw_cat3_x_cat3", A3, B3, weighted=True), (0.25, 0.5), configs=[{}, {"rows": [d1], "cols": [p1]}],
            quick=2, thorough=3)
    reg.add(S.schema2("fracw_mr_x_cat3", M, B3, weighted=True), (0.25, 0.5), configs=[{}], quick=2, thorough=2)
    reg.add(Schema("diff_cat3_1d", [A3], [("cat", 0)], weighted=True), (1, 2),
            configs=[{"rows": [d1]}, {"rows": [d2, p1]}], quick=3, thorough=5)
    return reg


REG = _build()
SCHEMAS = REG.schemas


def spaces(tier):
    return REG.spaces(tier)


def detail(space, state):
    return REG.detail(space, state)


def _moments(pairs):
    """(mean, variance, total weight) of weighted (x, w) pairs; NaN when no weight."""
    tw = sum(w for _, w in pairs)
    if tw == 0:
        return NANF, NANF, tw
    m = sum(x * w for x, w in pairs) / tw
    v = sum(w * (x - m) ** 2 for x, w in pairs) / tw
    return m, v, tw


def cell_stats(ss, I, J):
    """{'row'|'col'|'table': (p, var, base)} for oracle cell (I, J)."""
    row, col, tab = [], [], []
    for r in ss.data:
        sr, vr, sc, vc = ss.sign(r, I, J)
        w = r[1]
        if sr == 1 and vc:
            row.append((sc, w))
        if sc == 1 and vr:
            col.append((sr, w))
        if vr and vc:
            tab.append((sr * sc, w))
    out = {"row": _moments(row), "col": _moments(col), "table": _moments(tab)}
    nan3 = (NANF, NANF, NANF)
    if ss.is_diff_row(I):
        out["row"] = nan3
    if ss.is_diff_col(J):
        out["col"] = nan3
    if ss.is_diff_row(I) and ss.is_diff_col(J):
        out["table"] = nan3
        out["row"] = nan3
        out["col"] = nan3
    return out


def _se(var, base):
    if var != var or base != base or base == 0:
        return NANF
    return math.sqrt(var / base)


def check(space, state):
    sch, data, cfg, cube, oracles = REG.build(space, state)
    V = []
    asserted = 0
    outs = []
    nontrivial = False

    expd = {}

    def cmp(name, obs, exp):
        nonlocal asserted
        asserted += 1
        expd[name.replace("strand.", "")] = exp
        d = first_diff(obs, exp)
        if d is not None:
            V.append(viol(name, "%s cell %s: library %r, respondent-level value %r" % (name, d[0], d[1], d[2]),
                          output=name, cell=list(d[0])))

    def nonneg(name, obs):
        nonlocal asserted
        asserted += 1
        a = np.asarray(obs, dtype=float)
        if a.size and np.nanmin(np.where(np.isnan(a), 0, a)) < 0:
            V.append(viol(name + ":negative", "%s has a negative value" % name, output=name))

    fresh = Cube(tabulate(sch, data), transforms=transforms_for(cfg)).partitions
    scaled = {e: scaled_parts(sch, data, cfg, e) for e in SCALES} if (sch.weighted and data) else {}
    for pidx, (part, (kind, _lbl, orc)) in enumerate(zip(cube.partitions, oracles)):
        for e, sp in scaled.items():
            if kind == "strand":
                asserted += scale_invariant(V, ["table_proportion_stddevs"], part, sp[pidx], e)
                asserted += scale_invariant(V, ["table_proportion_stderrs", "table_proportion_moes"], part, sp[pidx], e, power=-0.5)
            else:
                asserted += scale_invariant(V, ["%s_%s" % (d_, n_) for d_ in ("row", "column", "table")
                                                for n_ in ("proportion_variances", "std_dev")], part, sp[pidx], e)
                asserted += scale_invariant(V, ["%s_%s" % (d_, n_) for d_ in ("row", "column", "table")
                                                for n_ in ("std_err", "proportions_moe")], part, sp[pidx], e, power=-0.5)
        if kind == "strand":
            rows = orc.rows
            from mc.common2d import resolve_insertions

            specs = resolve_insertions(rows, cfg.get("rows"))
            order = [int(i) for i in part.row_order()]
            groups = [([k], []) for k in range(len(rows))] + [(a, s) for _, a, s in specs]
            var, sd, se = [], [], []
            for i in order:
                g = groups[i if i >= 0 else len(rows) + len(specs) + i]
                pairs = []
                for r in orc.data:
                    if not any(rows.valid(r, k) for k in g[0] + g[1]):
                        continue
                    x = 1 if any(rows.member(r, k) for k in g[0]) else (
                        -1 if any(rows.member(r, k) for k in g[1]) else 0)
                    pairs.append((x, r[1]))
                m, v, tw = _moments(pairs)
                var.append(v)
                sd.append(math.sqrt(v) if v == v else NANF)
                se.append(_se(v, tw))
            cmp("strand.table_proportion_stddevs", part.table_proportion_stddevs, sd)
            cmp("strand.table_proportion_stderrs", part.table_proportion_stderrs, se)
            cmp("strand.table_proportion_moes", part.table_proportion_moes, [Z * x for x in se])
            nonneg("strand.table_proportion_stderrs", part.table_proportion_stderrs)
            outs.append(arr_bytes(part.table_proportion_stddevs))
            nontrivial = nontrivial or any(v == v and v > 0 for v in var)
            asserted += reverse_read(V, fresh[pidx], expd, ":strand")
            expd.clear()
            continue
        ss = SignedSlice(orc, cfg)
        ro, co = ss.display(part)
        stats = [[cell_stats(ss, I, J) for J in co] for I in ro]
        if sch.numeric:
            nan3 = (NANF, NANF, NANF)
            stats = [[{"row": nan3, "col": nan3, "table": nan3} if (ss.is_diff_row(I) or ss.is_diff_col(J)) else st
                      for J, st in zip(co, row)] for I, row in zip(ro, stats)]
        for d, dname in (("row", "row"), ("col", "column"), ("table", "table")):
            var = [[c[d][1] for c in row] for row in stats]
            sd = [[math.sqrt(v) if v == v else NANF for v in row] for row in var]
            se = [[_se(c[d][1], c[d][2]) for c in row] for row in stats]
            cmp("%s_proportion_variances" % dname, getattr(part, "%s_proportion_variances" % dname), var)
            cmp("%s_std_dev" % dname, getattr(part, "%s_std_dev" % dname), sd)
            cmp("%s_std_err" % dname, getattr(part, "%s_std_err" % dname), se)
            cmp("%s_proportions_moe" % dname, getattr(part, "%s_proportions_moe" % dname),
                [[Z * x for x in row] for row in se])
            nonneg("%s_std_err" % dname, getattr(part, "%s_std_err" % dname))
            nonneg("%s_proportion_variances" % dname, getattr(part, "%s_proportion_variances" % dname))
            nontrivial = nontrivial or any(v == v and v > 0 for row in var for v in row)
        outs.append(arr_bytes(part.row_proportion_variances, part.column_proportion_variances,
                              part.table_proportion_variances))
        asserted += reverse_read(V, fresh[pidx], expd)
        expd.clear()
    return Res(V, nontrivial, digest(space, state[1], *outs), asserted)
