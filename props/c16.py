# encoding: utf-8
"""C16 - column index compares the column share with the unconditional row share."""

import numpy as np

from mc import schemas as S
from mc.common2d import SCALES, Reg, display_map, scale_invariant, scaled_parts, subtotal, with_subtotals
from mc.compare import arr_bytes, first_diff
from mc.engine import Res, digest, viol
from mc.model import Schema
from mc.oracle import div

ID = "C16"
CHUNK = 100
RULE = ("states = (multiset of <=N respondents, config) on CAT/MR pairings in 2-D and 3-D with the "
        "missing category of every dimension at every payload position; non-trivial = some cell "
        "has a finite index AND some respondent has a missing column answer; distinct = distinct "
        "index tensors")
ASSUMPTIONS = ["weights {1,2}; {0.25,0.5} in the fracw_* spaces", "in a response carrying a numeric mean the respondents counted are those "
               "with a valid numeric answer (numeric answers {missing, 1})", "unconditional share = members of the row element / respondents "
               "eligible for it (valid on the rows dimension / item), any column answer"]
TRUSTED = ["numpy"]
NANF = float("nan")


def _build():
    reg = Reg()
    W = (1, 2)
    rsub = [subtotal("r12", [1, 2], anchor="top", sid=1)]
    csub = [subtotal("c12", [1, 2], anchor="bottom", sid=1)]
    for pa in ("first", "mid", "last"):
        A = S.cat("a", 2, pa)
        for pb in ("first", "mid", "last"):
            B = S.cat("b", 2, pb)
            reg.add(S.schema2("cat_%s_x_cat_%s" % (pa, pb), A, B, weighted=True), W,
                    configs=[{}, {"rows": rsub, "cols": csub}], quick=2, thorough=3)
    A = S.cat("a", 2, "mid")
    B3 = S.cat("b", 3, "mid")
    M, N_ = S.mr("m", 2), S.mr("n", 2)
    reg.add(S.schema2("cat_x_cat3_unw", A, B3), configs=[{}], quick=3, thorough=5)
    reg.add(S.schema2("cat_x_mr", A, M, weighted=True), W, configs=[{}, {"rows": rsub}], quick=2, thorough=3)
    reg.add(S.schema2("mr_x_cat", M, A, weighted=True), W, configs=[{}, {"cols": csub}], quick=2, thorough=3)
    reg.add(S.schema2("mr_x_mr", M, N_), configs=[{}], quick=2, thorough=3)
    # 3-D: missing table category first / mid / last; MR table
    A1 = S.cat("a", 2, "last")
    B1 = S.cat("b", 2, "first")
    for pt in ("first", "mid", "last"):
        T = S.cat("t", 2, pt)
        reg.add(Schema("cat_%s_x_cat_x_cat" % pt, [T, A1, B1], [("cat", 0), ("cat", 1), ("cat", 2)]),
                configs=[{}], quick=2, thorough=3)
    # table dimension of every categorical-like type, missing element before valid ones
    for tname, T in (("catdate", S.cat("t", 2, "first", date=True)), ("catdate_mid", S.cat("t", 2, "mid", date=True)),
                     ("datetime", S.enum("t", "datetime", 2, missing_first=True)),
                     ("text", S.enum("t", "text", 2, missing_first=True))):
        role = "enum" if T.kind == "ENUM" else "cat"
        reg.add(Schema("%s_x_cat_x_cat" % tname, [T, A1, B1], [(role, 0), ("cat", 1), ("cat", 2)]),
                configs=[{}], quick=2, thorough=3)
    T = S.cat("t", 2, "first")
    reg.add(Schema("catF_x_cat_x_mr", [T, A1, M], [("cat", 0), ("cat", 1), ("mr", 2)]), configs=[{}], quick=2, thorough=2)
    reg.add(Schema("catF_x_mr_x_cat", [T, M, A1], [("cat", 0), ("mr", 1), ("cat", 2)]), configs=[{}], quick=2, thorough=2)
    reg.add(Schema("mr_x_cat_x_cat", [M, A1, B1], [("mr", 0), ("cat", 1), ("cat", 2)]), configs=[{}], quick=2, thorough=3)
    # fractional weights: weighted eligible bases between 0 and 1
    FW = (0.25, 0.5)
    reg.add(S.schema2("fracw_mr_x_cat", M, A, weighted=True), FW, configs=[{}], quick=2, thorough=3)
    reg.add(S.schema2("fracw_cat_x_mr", A, M, weighted=True), FW, configs=[{}], quick=2, thorough=3)
    reg.add(S.schema2("fracw_cat_x_cat", A, S.cat("b", 2, "first"), weighted=True), FW, configs=[{}], quick=2, thorough=3)
    reg.add(S.schema2("fracw_mr_x_mr", M, N_, weighted=True), FW, configs=[{}], quick=2, thorough=2)
    # weights spanning nine orders of magnitude: a positive share below 1e-8 is still a share
    TW = (1e-9, 1)
    reg.add(S.schema2("tinyshare_cat_x_cat", A, S.cat("b", 2, "first"), weighted=True), TW, configs=[{}], quick=2, thorough=3)
    reg.add(S.schema2("tinyshare_mr_x_cat", M, A, weighted=True), TW, configs=[{}], quick=2, thorough=2)
    reg.add(S.schema2("tinyshare_cat_x_mr", A, M, weighted=True), TW, configs=[{}], quick=2, thorough=2)
    # responses carrying a numeric mean: every count is a count of respondents with a valid numeric
    # answer (weighted and unweighted valid counts both present), and so is the unconditional share
    num = {"measures": ["mean"], "valid_counts": True}
    Am, Bm = S.cat("a", 2, "mid"), S.cat("b", 2, "mid")
    reg.add(S.schema2("num_cat_x_cat_w", Am, Bm, weighted=True, numeric=dict(num)), W, (None, 1), configs=[{}],
            quick=2, thorough=3)
    reg.add(S.schema2("num_cat_x_mr_w", Am, M, weighted=True, numeric=dict(num)), W, (None, 1), configs=[{}],
            quick=2, thorough=2)
    reg.add(S.schema2("num_mr_x_cat_w", M, Am, weighted=True, numeric=dict(num)), W, (None, 1), configs=[{}],
            quick=2, thorough=2)
    return reg


REG = _build()
SCHEMAS = REG.schemas


def spaces(tier):
    return REG.spaces(tier)


def detail(space, state):
    return REG.detail(space, state)


def check(space, state):
    sch, data, cfg, cube, oracles = REG.build(space, state)
    V = []
    asserted = 0
    outs = []
    nontrivial = False
    ndim3 = len(sch.dims) == 3
    scaled = {e: scaled_parts(sch, data, cfg, e) for e in SCALES} if (sch.weighted and data) else {}
    for pidx, (part, (kind, _lbl, orc)) in enumerate(zip(cube.partitions, oracles)):
        for e, sp in scaled.items():
            asserted += scale_invariant(V, ["column_index"], part, sp[pidx], e)
        if sch.numeric:
            orc.data = [r for r in orc.data if r[2] is not None]
        o = with_subtotals(orc, cfg)
        a = o.all(True)
        ro = display_map(part.row_order(), o.n_base_rows, len(o.row_specs))
        co = display_map(part.column_order(), o.n_base_cols, len(o.col_specs))
        rows = orc.rows
        share = []
        for i in range(o.n_base_rows):
            mem = sum(r[1] for r in orc.data if rows.member(r, i))
            elig = sum(r[1] for r in orc.data if rows.valid(r, i))
            share.append(div(mem, elig))
        exp = []
        for I in ro:
            row = []
            for J in co:
                if I >= o.n_base_rows or J >= o.n_base_cols:
                    row.append(NANF)
                    continue
                cp = div(a["count"][I][J], a["col_base"][I][J])
                row.append(100 * div(cp, share[I]) if cp == cp else NANF)
            exp.append(row)
        obs = part.column_index
        asserted += 1
        d = first_diff(obs, exp)
        if d is not None:
            kind_ = "column_index"
            if ndim3:
                tvar = sch.vars[sch.dims[0][1]]
                cats = getattr(tvar, "cats", None)
                if cats is None and getattr(tvar, "elements", None) is not None:
                    cats = ([{"missing": True}] if tvar.has_missing and tvar.missing_first else []) + \
                        [{"missing": False} for _ in tvar.elements]
                if cats is not None:
                    raw = [k for k, c in enumerate(cats) if not c.get("missing")][pidx]
                    kind_ += ":3d" + (":missing_table_category_before_partition" if raw != pidx else "")
                else:
                    kind_ += ":3d"
            V.append(viol(kind_, "column_index partition %d cell %s: library %r, 100*colprop/unconditional row "
                          "share = %r" % (pidx, d[0], d[1], d[2]), partition=pidx, cell=list(d[0])))
        outs.append(arr_bytes(np.asarray(obs)))
        fin = np.isfinite(np.asarray(obs, dtype=float))
        has_missing_col = any(not any(orc.cols.valid(r, j) for j in range(len(orc.cols))) for r in orc.data)
        nontrivial = nontrivial or (bool(fin.any()) and has_missing_col)
    return Res(V, nontrivial, digest(space, state[1], *outs), asserted)
