# encoding: utf-8
"""C13 - pairwise column tests: statistic, p-value and index sets."""

import copy
import math

import numpy as np
from scipy.stats import t as tdist

from cr.cube.cube import Cube

from mc import schemas as S
from mc.common2d import display_map, subtotal, with_subtotals
from mc.compare import SKIP, first_diff, num_eq
from mc.engine import Res, Space, digest, multisets, viol
from mc.model import MIS, SEL, Schema, tabulate
from mc.partition import partition_oracles

ID = "C13"
CHUNK = 100
RULE = ("states = (multiset of <=N respondent events, each event = m identical respondents with m in "
        "{1,3} on the amplified schemas, config: subtotal column/row, alpha pair, only-larger flag, column "
        "order / hide); non-trivial = some pair of columns in some row has a finite non-zero t; distinct "
        "= distinct t tensors")
ASSUMPTIONS = ["t is unasserted where it is 0/0; x/0 (two degenerate, different columns) is +-inf with p = 0 on the "
               "plain path, unasserted on the overlap / means / squared-weight paths",
               "overlap-corrected variant as implemented from the overlap / valid_overlap measures: "
               "t = (p_b - p_a)/sqrt((pa(1-pa)+pb(1-pb)+2 pa pb-2 pab)/df), df = Na+Nb-Nab, p with df-2",
               "difference subtotals are excluded as selected/compared columns",
               "scipy.stats.t.cdf is shared with the library (trusted)"]
TRUSTED = ["scipy.stats.t.cdf", "numpy"]
NANF = float("nan")

A2 = S.cat("a", 2, "last")
B3 = S.cat("b", 3, "first")
M3 = S.mr("m", 3)
M2 = S.mr("m", 2)
N2 = S.mr("n", 2)
csub = [subtotal("b12", [1, 2], anchor="top", sid=1)]
rsub = [subtotal("a12", [1, 2], anchor="bottom", sid=1)]

ALPHAS = [None, {"alpha": [0.1]}, {"alpha": [0.4, 0.05]}, {"alpha": [0.3], "only_larger": False},
          {"alpha": [0.05, 0.45], "only_larger": False}]
COLT = [{}, {"order": {"type": "explicit", "element_ids": [3, 1]}}, {"elements": {"2": {"hide": True}}}]
MEANS = {"measures": ["mean", "stddev"], "valid_counts": True}

BASES = {
    # name: schema, weights, nums, configs(list of (rows ins, cols ins, colT idx)), quick, thorough, mult
    "cat_x_cat": (S.schema2("cat_x_cat", A2, B3, weighted=True), (1, 2), (None,),
                  [(None, None), (None, csub), (rsub, csub)], 2, 3, (1, 3)),
    "cat_x_cat_sq": (S.schema2("cat_x_cat_sq", A2, B3, weighted=True, squared=True), (1, 2), (None,),
                     [(None, None), (rsub, csub)], 2, 3, (1, 3)),
    "cat_x_mr": (S.schema2("cat_x_mr", A2, M3), (1,), (None,), [(None, None), (rsub, None)], 1, 2, (1, 3)),
    "cat_x_mr_ov": (S.schema2("cat_x_mr_ov", A2, M2, overlaps=True), (1,), (None,), [(None, None), (rsub, None)], 2, 3, (1, 3)),
    "cat_x_mr_ov_w": (S.schema2("cat_x_mr_ov_w", A2, M2, weighted=True, overlaps=True), (1, 2), (None,), [(None, None)], 1, 2, (1,)),
    # multiple-response ROWS: every row has its own column bases (also for a subtotal column)
    "mr_x_cat": (S.schema2("mr_x_cat", M2, B3), (1,), (None,), [(None, None), (None, csub)], 2, 3, (1, 3)),
    "mr_x_cat_sq": (S.schema2("mr_x_cat_sq", M2, B3, weighted=True, squared=True), (1, 2), (None,), [(None, None), (None, csub)],
                    2, 2, (1,)),
    "mr_x_mr_ov": (S.schema2("mr_x_mr_ov", N2, M2, overlaps=True), (1,), (None,), [(None, None)], 1, 2, (1, 3)),
    "means_cat_x_cat": (S.schema2("means_cat_x_cat", A2, B3, numeric=dict(MEANS)), (1,), (None, 1, 3, 4),
                        [(None, None), (rsub, csub)], 2, 3, (1,)),
}
# row items whose missingness differs from one another, reduced alphabet, 4-5 events
BASES["mr_x_mr_ov_deep"] = (S.schema2("mr_x_mr_ov_deep", N2, M2, overlaps=True), (1,), (None,), [(None, None)], 4, 5, (1,))
# mean responses need two valued respondents per cell before Welch's test is defined: one row, reduced alphabet, deeper
BASES["means_deep"] = (S.schema2("means_deep", A2, B3, numeric=dict(MEANS)), (1,), (None,), [(None, None)], 5, 6, (1,))
SCHEMAS = {k: v[0] for k, v in BASES.items()}
PROFILES = {}
for _k, _v in BASES.items():
    P = _v[0].profiles(_v[1], _v[2])
    PROFILES[_k] = [(p, m) for p in P for m in _v[6]]


def _cfgs(name):
    if name == "mr_x_mr_ov_deep":
        return [(0, 1, 0), (0, 3, 0), (0, 4, 2)]
    if name == "means_deep":
        return [(0, 4, 0), (0, 2, 0), (0, 3, 2)]
    out = []
    ins = BASES[name][3]
    mr_cols = BASES[name][0].vars[1].kind == "MR"
    for i in range(len(ins)):
        for a in range(len(ALPHAS)):
            for c in range(len(COLT)):
                if mr_cols and c == 1:
                    continue
                out.append((i, a, c))
    return out


PROFILES["mr_x_mr_ov_deep"] = [(((n, m), 1, None), 1) for n in ((1, 0), (0, 1), (1, -1), (-1, 1), (1, 1))
                               for m in ((1, 0), (0, 1), (1, 1))]
PROFILES["means_deep"] = [(((1, c), 1, x), 1) for c in (1, 2, 3) for x in (1, 3, 4)]
CONFIGS = {k: _cfgs(k) for k in BASES}


def spaces(tier):
    out = []
    for name in sorted(BASES):
        q, t = BASES[name][4], BASES[name][5]
        n = q if tier == "quick" else t
        npf = len(PROFILES[name])

        def level(k, npf=npf, ncf=len(CONFIGS[name])):
            def gen():
                for ms in multisets(npf, k):
                    for c in range(ncf):
                        yield (ms, c)
            return gen
        out.append(Space(name, [(k, level(k)) for k in range(1, n + 1)], npf,
                         {"schema": name, "event_alphabet": npf, "configs": len(CONFIGS[name]), "max_events": n,
                          "multiplicities": list(BASES[name][6])}))
    return out


def _unpack(space, state):
    sch = SCHEMAS[space]
    data = []
    for i in state[0]:
        p, m = PROFILES[space][i]
        data.extend([p] * m)
    ii, ai, ci = CONFIGS[space][state[1]]
    rins, cins = BASES[space][3][ii]
    t = {}
    cfg = {}
    if rins:
        t["rows_dimension"] = {"insertions": copy.deepcopy(rins)}
        cfg["rows"] = rins
    cd = {}
    if cins:
        cd["insertions"] = copy.deepcopy(cins)
        cfg["cols"] = cins
    ct = copy.deepcopy(COLT[ci])
    if sch.vars[1].kind == "MR" and "elements" in ct:
        ct["elements"] = {"m_2": {"hide": True}}
    cd.update(ct)
    if cd:
        t["columns_dimension"] = cd
    if ALPHAS[ai] is not None:
        t["pairwise_indices"] = copy.deepcopy(ALPHAS[ai])
    return sch, data, t, cfg, ALPHAS[ai]


def detail(space, state):
    sch, data, t, cfg, al = _unpack(space, state)
    return {"schema": space, "dims": sch.dims, "transforms": t, "overlaps": sch.overlaps, "squared_weights": sch.squared,
            "respondents": [{"answers": r[0], "weight": r[1], "num": r[2]} for r in data]}


def _pval(tv, df):
    if tv != tv or df != df:
        return NANF
    return 2 * (1 - tdist.cdf(abs(tv), df=df))


def check(space, state):
    sch, data, t, cfg, al = _unpack(space, state)
    part = Cube(tabulate(sch, data), transforms=copy.deepcopy(t)).partitions[0]
    kind, _l, orc = partition_oracles(sch, data)[0]
    o = with_subtotals(orc, cfg)
    ro = display_map(part.row_order(), o.n_base_rows, len(o.row_specs))
    co = display_map(part.column_order(), o.n_base_cols, len(o.col_specs))
    V = []
    asserted = 0
    aw, au = o.all(True), o.all(False)
    is_means = bool(sch.numeric)
    alpha = (al or {}).get("alpha") or [0.05]
    alpha = sorted(alpha)
    only_larger = (al or {}).get("only_larger", True) is not False
    R, C = len(ro), len(co)
    # ---- expected t / p for every (display row, selected display col, compared display col)
    T = np.full((C, R, C), NANF)
    P = np.full((C, R, C), NANF)
    ASSERT = np.zeros((C, R, C), dtype=bool)

    def col_stats(I, J):
        """(proportion, n) of oracle cell (I, J) for the proportions test"""
        p = aw["count"][I][J] / aw["col_base"][I][J] if aw["col_base"][I][J] else NANF
        if sch.squared:
            w2 = sum(r[1] ** 2 for r in o.data if (lambda q: q[1] and q[2])(o._preds(r, I, J)))
            n = aw["col_base"][I][J] ** 2 / w2 if w2 else NANF
        else:
            n = au["col_base"][I][J]
        return p, n

    if is_means:
        def mstats(I, J):
            vals = [r[2] for r in o.members(I, J) if r[2] is not None] if (I < o.n_base_rows and J < o.n_base_cols) else []
            n = len(vals)
            if n == 0:
                return NANF, NANF, 0
            m = sum(vals) / n
            s2 = sum((v - m) ** 2 for v in vals) / (n - 1) if n > 1 else NANF
            return m, s2, n
    for sj, J in enumerate(co):
        for ri, I in enumerate(ro):
            for ck, K in enumerate(co):
                if is_means:
                    if I >= o.n_base_rows or J >= o.n_base_cols or K >= o.n_base_cols:
                        ASSERT[sj, ri, ck] = True      # NaN on subtotals
                        continue
                    ma, va, na = mstats(I, J)
                    mb, vb, nb = mstats(I, K)
                    if na < 2 or nb < 2:
                        continue
                    den = va / na + vb / nb
                    if den == 0:
                        continue
                    tv = (mb - ma) / math.sqrt(den)
                    df = den ** 2 / ((va / na) ** 2 / (na - 1) + (vb / nb) ** 2 / (nb - 1))
                    T[sj, ri, ck], P[sj, ri, ck], ASSERT[sj, ri, ck] = tv, _pval(tv, df), True
                    continue
                if sch.overlaps:
                    a, b = J, K
                    if a == b:
                        T[sj, ri, ck], ASSERT[sj, ri, ck] = 0.0, True
                        P[sj, ri, ck] = NANF
                        continue
                    # bases over respondents eligible on the row element (any category / this item)
                    cvar = orc.cols.var
                    elig = [r for r in o.data if o._preds(r, I, 0)[1]] if orc.rows.kind == "MR" else \
                        [r for r in o.data if o._preds(r, 0, 0)[1]]
                    vi = sch.dims[1][1]

                    def st(r, k):
                        return cvar.states(r[0][vi])[k]
                    Sa = sum(r[1] for r in elig if st(r, a) == SEL)
                    Sb = sum(r[1] for r in elig if st(r, b) == SEL)
                    Sab = sum(r[1] for r in elig if st(r, a) == SEL and st(r, b) == SEL)
                    Na = sum(r[1] for r in elig if st(r, a) != MIS)
                    Nb = sum(r[1] for r in elig if st(r, b) != MIS)
                    Nab = sum(r[1] for r in elig if st(r, a) != MIS and st(r, b) != MIS)
                    if not (Na and Nb and Nab):
                        continue
                    pa, pb, pab = Sa / Na, Sb / Nb, Sab / Nab
                    df = Na + Nb - Nab
                    var = (pa * (1 - pa) + pb * (1 - pb) + 2 * pa * pb - 2 * pab) / df
                    ca = aw["count"][I][a] / aw["col_base"][I][a] if aw["col_base"][I][a] else NANF
                    cb = aw["count"][I][b] / aw["col_base"][I][b] if aw["col_base"][I][b] else NANF
                    if var <= 0 or ca != ca or cb != cb:
                        continue
                    tv = (cb - ca) / math.sqrt(var)
                    T[sj, ri, ck], P[sj, ri, ck], ASSERT[sj, ri, ck] = tv, _pval(tv, df - 2), True
                    continue
                pa, na = col_stats(I, J)
                pb, nb = col_stats(I, K)
                if pa != pa or pb != pb or not na or not nb or na != na or nb != nb:
                    continue
                den = pa * (1 - pa) / na + pb * (1 - pb) / nb
                if den == 0 and pb != pa and na + nb - 2 > 0 and not (sch.squared):
                    # both columns degenerate (0 % or 100 %) and different: x/0 is +-inf (the most different pair
                    # there is), two-sided p = 0
                    T[sj, ri, ck], P[sj, ri, ck], ASSERT[sj, ri, ck] = (math.inf if pb > pa else -math.inf), 0.0, True
                    continue
                if den <= 0:
                    continue
                tv = (pb - pa) / math.sqrt(den)
                T[sj, ri, ck], P[sj, ri, ck], ASSERT[sj, ri, ck] = tv, _pval(tv, na + nb - 2), True

    tfn = part.pairwise_significance_means_t_stats if is_means else part.pairwise_significance_t_stats
    pfn = part.pairwise_significance_means_p_vals if is_means else part.pairwise_significance_p_vals
    LT = np.full((C, R, C), NANF)
    LP = np.full((C, R, C), NANF)
    for sj in range(C):
        LT[sj] = np.asarray(tfn(sj), dtype=float).reshape(R, C)
        LP[sj] = np.asarray(pfn(sj), dtype=float).reshape(R, C)
    for sj in range(C):
        for ri in range(R):
            for ck in range(C):
                if not ASSERT[sj, ri, ck]:
                    continue
                asserted += 1
                blk = "subtotal" if (ro[ri] >= o.n_base_rows or co[sj] >= o.n_base_cols or co[ck] >= o.n_base_cols) else "body"
                if not num_eq(LT[sj, ri, ck], T[sj, ri, ck], 1e-9, 1e-9):
                    V.append(viol("t_stat:%s" % blk, "t(selected col %d, row %d, col %d): library %r, formula %r"
                                  % (sj, ri, ck, LT[sj, ri, ck], T[sj, ri, ck])))
                    break
                if not (sch.overlaps and sj == ck) and not num_eq(LP[sj, ri, ck], P[sj, ri, ck], 1e-7, 1e-9):
                    V.append(viol("p_val:%s" % blk, "p(selected col %d, row %d, col %d): library %r, Student-t tail %r"
                                  % (sj, ri, ck, LP[sj, ri, ck], P[sj, ri, ck])))
                    break
    # ---- antisymmetry of t, symmetry of p, self = 0 (on the library's own numbers)
    for ri in range(R):
        for a in range(C):
            for b in range(C):
                ta, tb = LT[a, ri, b], LT[b, ri, a]
                if np.isfinite(ta) and np.isfinite(tb):
                    asserted += 1
                    if not num_eq(ta, -tb, 1e-9, 1e-9):
                        V.append(viol("antisymmetry", "row %d: t(%d->%d)=%r but t(%d->%d)=%r" % (ri, a, b, ta, b, a, tb)))
                    if a != b and np.isfinite(LP[a, ri, b]) and np.isfinite(LP[b, ri, a]) and \
                            not num_eq(LP[a, ri, b], LP[b, ri, a], 1e-7, 1e-9):
                        V.append(viol("p_symmetry", "row %d: p(%d,%d) != p(%d,%d)" % (ri, a, b, b, a)))
    # ---- index sets from the library's own t / p: exactly the other columns below alpha
    idx_name = "pairwise_means_indices" if is_means else "pairwise_indices"
    for which, (nm, al_) in enumerate(((idx_name, alpha[0]), (idx_name + "_alt", alpha[1] if len(alpha) > 1 else None))):
        got = getattr(part, nm)
        asserted += 1
        if al_ is None:
            if got is not None:
                V.append(viol("indices:%s:not_none" % nm, "%s must be None without a secondary alpha" % nm))
            continue
        got = np.asarray(got, dtype=object)
        for ri in range(R):
            for sj in range(C):
                exp = []
                for ck in range(C):
                    p_, t_ = LP[sj, ri, ck], LT[sj, ri, ck]
                    if ck == sj:
                        continue
                    if p_ == p_ and p_ < al_ and (not only_larger or (t_ == t_ and t_ < 0)):
                        exp.append(ck)
                cell = tuple(int(x) for x in got[ri][sj]) if R and C else ()
                if sj in cell:
                    V.append(viol("indices:self%s" % (":overlaps" if sch.overlaps else ""),
                                  "%s row %d col %d contains the column itself: %r" % (nm, ri, sj, cell)))
                    break
                if sorted(cell) != exp:
                    V.append(viol("indices:%s" % nm, "%s row %d col %d: %r, columns with p<%s%s are %r"
                                  % (nm, ri, sj, cell, al_, " and a smaller proportion" if only_larger else "", exp)))
                    break
    if len(alpha) > 1:
        a1 = np.asarray(getattr(part, idx_name), dtype=object)
        a2 = np.asarray(getattr(part, idx_name + "_alt"), dtype=object)
        asserted += 1
        for ri in range(R):
            for sj in range(C):
                if not set(a1[ri][sj]) <= set(a2[ri][sj]):
                    V.append(viol("indices:alt_superset", "secondary-alpha set %r does not contain the primary %r"
                                  % (a2[ri][sj], a1[ri][sj])))
    ntv = bool(np.any(np.isfinite(LT) & (LT != 0)))
    return Res(V, ntv, digest(space, state[1], np.round(np.nan_to_num(LT), 9).tobytes()), asserted)
