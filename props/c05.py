# encoding: utf-8
"""C05 - display transforms only select and reorder; every output stays aligned.

Relation between two runs of the library on the same response: the BASE run (same
insertions, no order / hide / prune) and the TRANSFORMED run.  Every public output of the
partition - discovered by introspection, classified by its extent in the base run - must
equal the base output re-indexed by the reported display order.
"""

import copy
import itertools

import numpy as np

from cr.cube.cube import Cube

from mc import schemas as S
from mc.common2d import subtotal
from mc.compare import first_diff, to_list
from mc.engine import Res, Space, digest, multisets, viol
from mc.model import Schema, tabulate

ID = "C05"
CHUNK = 40
RULE = ("states = (multiset of <=N respondents, transform combination on rows AND columns: order type x "
        "fixed lists (with repeats/overlap) x hide subset x prune flag, with insertions present); "
        "non-trivial = the displayed order differs from the base order (something hidden, pruned or "
        "moved); distinct = distinct (config, displayed orders)")
ASSUMPTIONS = ["outputs are classified by their extent in the base run on NON-square tables, so a row-wise "
               "output cannot be mistaken for a column-wise one",
               "object-valued outputs (min_base_size_mask, pairwise_significance_tests) and "
               "summary_pairwise_indices are not compared"]
TRUSTED = ["numpy"]

POSITION_VALUED = {"pairwise_indices": "cols_in_cells", "pairwise_indices_alt": "cols_in_cells",
                   "pairwise_means_indices": "cols_in_cells", "pairwise_means_indices_alt": "cols_in_cells",
                   "columns_scale_mean_pairwise_indices": "cols_per_col",
                   "columns_scale_mean_pairwise_indices_alt": "cols_per_col",
                   "summary_pairwise_indices": "cols_per_col",
                   "inserted_row_idxs": "rowpos", "inserted_column_idxs": "colpos",
                   "diff_row_idxs": "rowpos", "diff_column_idxs": "colpos",
                   "derived_row_idxs": "rowpos", "derived_column_idxs": "colpos"}
TABLE_LEVEL = {"dimension_types", "table_base_range", "table_margin_range", "selected_category_labels"}
SKIP_NAMES = {"min_base_size_mask", "pairwise_significance_tests", "shape",
              "is_empty", "row_count", "payload_order", "cube_index", "residual_test_stats"}

A3 = S.cat("a", 3, "mid", values=[1, None, 3], names=["b_lab", "c_lab", "a_lab"])
B2 = S.cat("b", 2, "last", values=[2, 1], names=["y", "x"])
M2 = S.mr("m", 2)
M3 = S.mr("n", 3)
r_ins = [subtotal("s12", [1, 2], anchor=1, sid=1), subtotal("d3_1", [3], [1], anchor="bottom", sid=2)]
c_ins = [subtotal("t12", [1, 2], anchor="top", sid=5), subtotal("t2", [2], anchor="bottom", sid=6)]

ROW_ORDERS = [None, {"type": "explicit", "element_ids": [3, 1]}, {"type": "explicit", "element_ids": [2, 2, 99]},
              {"type": "label", "direction": "ascending"},
              {"type": "opposing_element", "element_id": 1, "measure": "col_percent",
               "fixed": {"top": [2, 2], "bottom": [2]}},
              {"type": "opposing_element", "element_id": 2, "measure": "count_unweighted", "direction": "ascending",
               "fixed": {"bottom": [3, 1, 3]}},
              {"type": "marginal", "marginal": "scale_mean"},
              {"type": "opposing_insertion", "insertion_id": 5, "measure": "row_percent"}]
COL_ORDERS = [None, {"type": "explicit", "element_ids": [2, 1]}, {"type": "label"},
              {"type": "opposing_element", "element_id": 2, "measure": "row_percent", "fixed": {"top": [1, 1]}}]
ROW_HIDES = [(), (1,), (0, 2), (0,)]
COL_HIDES = [(), (0,)]

NUM = {"measures": ["mean", "sum", "stddev"], "valid_counts": True}
BASES = {
    # schema, weights(thorough), nums, rows insertions?, cols insertions?, quickN, thoroughN, mode
    "cat3_x_cat2": (S.schema2("cat3_x_cat2", A3, B2, weighted=True, squared=True), (1, 2), (None,), 2, 2, "full"),
    "cat3_x_cat2_num": (S.schema2("cat3_x_cat2_num", A3, B2, numeric=dict(NUM)), (1,), (None, 1, 3), 1, 2, "rows"),
    "cat3_x_mr3": (S.schema2("cat3_x_mr3", A3, M3), (1,), (None,), 1, 2, "mrcols"),
    # MR with a derived (inserted) item on rows / on columns; cat(3) keeps the table non-square
    "mrd_x_cat3": (S.schema2("mrd_x_cat3", S.mr("m", 2, derived=[{"pos": 1, "alias": "m_any", "name": "Any", "members": ["m_1", "m_2"],
                                                                   "anchor": {"position": "after", "alias": "m_1"}}]),
                             S.cat("b", 3, "last", values=[2, 1, 3], names=["y", "x", "z"])), (1,), (None,), 1, 2, "mrrows"),
    "cat3_x_mrd": (S.schema2("cat3_x_mrd", A3, S.mr("n", 2, derived=[{"pos": 0, "alias": "n_any", "name": "Any", "members": ["n_1", "n_2"],
                                                                       "anchor": "top"}])), (1,), (None,), 1, 2, "mrcols"),
    "mr2_x_cat2": (S.schema2("mr2_x_cat2", M2, B2), (1,), (None,), 1, 2, "mrrows"),
    "cat3_x_cat2_x6": (S.schema2("cat3_x_cat2_x6", A3, B2), (1,), (None,), 2, 3, "rows"),
    "cat3_1d": (Schema("cat3_1d", [A3], [("cat", 0)], weighted=True), (1, 2), (None,), 3, 4, "strand"),
    "mr3_1d": (Schema("mr3_1d", [M3], [("mr", 0)]), (1,), (None,), 2, 3, "mrstrand"),
    # categorical-date strands: smoothing is on by default there (window 2), on proportions and on a numeric mean
    "date3_1d": (Schema("date3_1d", [S.cat("a", 3, "mid", date=True)], [("cat", 0)], weighted=True), (1, 2), (None,), 3, 4, "strand"),
    "date3_1d_num": (Schema("date3_1d_num", [S.cat("a", 3, "mid", date=True)], [("cat", 0)],
                            numeric={"measures": ["mean", "sum"], "valid_counts": True}), (1,), (None, 1, 3, 4.5), 3, 4, "strand"),
}
SCHEMAS = {k: v[0] for k, v in BASES.items()}
PROFILES = {"quick": {k: v[0].profiles((1,), v[2]) for k, v in BASES.items()},
            "thorough": {k: v[0].profiles(v[1], v[2]) for k, v in BASES.items()}}


def _alias_order(o, prefix):
    """Write category-id based order dicts with item aliases for an MR dimension."""
    if o is None:
        return None
    o = copy.deepcopy(o)
    if "element_ids" in o:
        o["element_ids"] = ["%s_%s" % (prefix, x) for x in o["element_ids"]]
    if "fixed" in o:
        o["fixed"] = {k: ["%s_%s" % (prefix, x) for x in v] for k, v in o["fixed"].items()}
    return o


def _configs(mode, tier="thorough"):
    out = []
    if mode == "full":
        for ro, rh, rp in itertools.product(range(len(ROW_ORDERS)), range(len(ROW_HIDES)), (False, True)):
            for co, ch, cp in itertools.product(range(len(COL_ORDERS)), range(len(COL_HIDES)), (False, True)):
                if tier == "quick" and (rp != cp or (rh and ch and ro and co)):
                    continue      # quick: prune flags together; hide+order on one dimension at a time
                out.append((ro, rh, rp, co, ch, cp))
    elif mode == "rows":
        for ro, rh, rp in itertools.product(range(len(ROW_ORDERS)), range(len(ROW_HIDES)), (False, True)):
            out.append((ro, rh, rp, 0, 0, False))
        out += [(0, 0, False, co, ch, cp) for co, ch, cp in itertools.product(range(len(COL_ORDERS)), range(len(COL_HIDES)), (False, True))]
    elif mode == "mrcols":
        for ro, rh, rp in itertools.product((0, 1, 3, 4), range(len(ROW_HIDES)), (False, True)):
            for co, ch, cp in itertools.product((0, 1, 2), range(len(COL_HIDES)), (False, True)):
                out.append((ro, rh, rp, co, ch, cp))
    elif mode == "mrrows":
        for ro, rh, rp in itertools.product((0, 1, 2, 3, 5), range(len(ROW_HIDES)), (False, True)):
            for co, ch, cp in itertools.product((0, 1, 2), range(len(COL_HIDES)), (False, True)):
                out.append((ro, rh, rp, co, ch, cp))
    else:  # strands
        for ro, rh, rp in itertools.product((0, 1, 2, 3), range(len(ROW_HIDES)), (False, True)):
            out.append((ro, rh, rp, 0, 0, False))
        for m in ("percent", "count_weighted", "base_unweighted", "population"):
            for d in ("ascending", "descending"):
                out.append((("uni", m, d), 0, False, 0, 0, False))
    return out


CONFIGS_T = {t: {k: _configs(v[5], t) for k, v in BASES.items()} for t in ("quick", "thorough")}


def spaces(tier):
    out = []
    for name in sorted(BASES):
        sch, w, nums, q, t, mode = BASES[name]
        n = q if tier == "quick" else t
        npf = len(PROFILES[tier][name])
        tq = 0 if tier == "quick" else 1

        def level(k, npf=npf, ncf=len(CONFIGS_T[tier][name]), tq=tq):
            def gen():
                for ms in multisets(npf, k):
                    for c in range(ncf):
                        yield (ms, c, tq)
            return gen
        out.append(Space(name, [(k, level(k)) for k in range(0, n + 1)], npf,
                         {"schema": name, "profiles": npf, "transform_combinations": len(CONFIGS_T[tier][name]),
                          "max_respondents": n}))
    return out


def _transforms(space, cfg):
    sch, w, nums, q, t, mode = BASES[space]
    ro, rh, rp, co, ch, cp = cfg
    strand = mode in ("strand", "mrstrand")
    rvar = sch.vars[sch.dims[0][1]]
    base, tr = {}, {}
    rd_base = {}
    if rvar.kind == "CAT":
        rd_base["insertions"] = copy.deepcopy(r_ins)
    rd = copy.deepcopy(rd_base)
    rids = rvar.valid_ids if rvar.kind == "CAT" else [it["alias"] for it in rvar.items]
    if isinstance(ro, tuple):
        rd["order"] = {"type": "univariate_measure", "measure": ro[1], "direction": ro[2]}
    elif ROW_ORDERS[ro] is not None:
        o = copy.deepcopy(ROW_ORDERS[ro])
        if rvar.kind != "CAT":
            o = _alias_order(o, rvar.alias)
        if not strand and o.get("type") == "opposing_element":
            cvar0 = sch.vars[sch.dims[1][1]]
            if cvar0.kind != "CAT":
                o["element_id"] = "%s_%s" % (cvar0.alias, o["element_id"])
        rd["order"] = o
    hid = {str(rids[i]): {"hide": True} for i in ROW_HIDES[rh] if i < len(rids)}
    if hid:
        rd["elements"] = hid
    if rp:
        rd["prune"] = True
    base["rows_dimension"] = rd_base
    tr["rows_dimension"] = rd
    if not strand:
        cvar = sch.vars[sch.dims[1][1]]
        cd_base = {}
        if cvar.kind == "CAT":
            cd_base["insertions"] = copy.deepcopy(c_ins)
        cd = copy.deepcopy(cd_base)
        cids = cvar.valid_ids if cvar.kind == "CAT" else [it["alias"] for it in cvar.items]
        if COL_ORDERS[co] is not None:
            o = copy.deepcopy(COL_ORDERS[co])
            if cvar.kind != "CAT":
                o = _alias_order(o, cvar.alias)
            if o.get("type") == "opposing_element" and rvar.kind != "CAT":
                o["element_id"] = "%s_%s" % (rvar.alias, o["element_id"])
            cd["order"] = o
        hid = {str(cids[i]): {"hide": True} for i in COL_HIDES[ch] if i < len(cids)}
        if hid:
            cd["elements"] = hid
        if cp:
            cd["prune"] = True
        base["columns_dimension"] = cd_base
        tr["columns_dimension"] = cd
    for t_ in (base, tr):
        t_["pairwise_indices"] = {"alpha": [0.05, 0.4], "only_larger": False}
    return base, tr


def detail(space, state):
    tier = "thorough" if state[2] else "quick"
    base, tr = _transforms(space, CONFIGS_T[tier][space][state[1]])
    return {"schema": space, "dims": SCHEMAS[space].dims, "transforms": tr,
            "respondents": [{"answers": r[0], "weight": r[1], "num": r[2]}
                            for r in (PROFILES[tier][space][i] for i in state[0])]}


def public_names(part):
    names = []
    for n in dir(type(part)):
        if n.startswith("_") or n in SKIP_NAMES:
            continue
        attr = getattr(type(part), n, None)
        if callable(attr) and not hasattr(attr, "_fget"):
            continue
        names.append(n)
    return names


def read_all(part, names):
    out = {}
    for n in names:
        try:
            out[n] = ("ok", getattr(part, n))
        except Exception as e:  # same exception type expected in both runs
            out[n] = ("exc", type(e).__name__)
    # the per-column summary tests (column share of the table) as column x column matrices
    for syn, attr in SYNTHETIC.items():
        if not hasattr(part, "pairwise_significance_tests"):
            break
        try:
            tests = part.pairwise_significance_tests
            out[syn] = ("ok", np.array([np.asarray(getattr(t_, attr), dtype=float) for t_ in tests]).reshape(
                len(tests), -1) if len(tests) else np.zeros((0, 0)))
        except Exception as e:
            out[syn] = ("exc", type(e).__name__)
    return out


SYNTHETIC = {"pairwise_significance_tests[].summary_t_stats": "summary_t_stats",
             "pairwise_significance_tests[].summary_p_vals": "summary_p_vals"}


_CACHE = {}


def _base_run(space, tier, ms, base_t):
    key = (space, tier, ms)
    hit = _CACHE.get("k")
    if hit is not None and hit[0] == key:
        return hit[1]
    sch = SCHEMAS[space]
    data = [PROFILES[tier][space][i] for i in ms]
    if space.endswith("_x6"):
        data = data * 6      # amplification: six identical respondents per event
    part = Cube(tabulate(sch, data), transforms=copy.deepcopy(base_t), population=1000, mask_size=2).partitions[0]
    names = public_names(part)
    vals = read_all(part, names)
    names = names + [k for k in SYNTHETIC if k in vals]
    ro = [int(i) for i in part.row_order()]
    co = [int(i) for i in part.column_order()] if hasattr(part, "column_order") else None
    res = (data, names, vals, ro, co)
    _CACHE["k"] = (key, res)
    return res


def _renumber(cell, posmap):
    return tuple(sorted(posmap[c] for c in cell if c in posmap))


def check(space, state):
    tier = "thorough" if state[2] else "quick"
    cfg = CONFIGS_T[tier][space][state[1]]
    base_t, tr = _transforms(space, cfg)
    data, names, bvals, bro, bco = _base_run(space, tier, state[0], base_t)
    sch = SCHEMAS[space]
    part = Cube(tabulate(sch, data), transforms=copy.deepcopy(tr), population=1000, mask_size=2).partitions[0]
    V = []
    asserted = 0
    strand = bco is None
    ro = [int(i) for i in part.row_order()]
    co = None if strand else [int(i) for i in part.column_order()]
    # ---- the order never lists a vector twice, and only vectors of the base run
    for nm, o, bo in (("row", ro, bro), ("column", co, bco)):
        if o is None:
            continue
        asserted += 1
        if len(set(o)) != len(o):
            V.append(viol("order:duplicate:%s" % nm, "%s order lists a vector twice: %r" % (nm, o)))
        if not set(o) <= set(bo):
            V.append(viol("order:unknown:%s" % nm, "%s order %r names vectors absent from the base run %r" % (nm, o, bo)))
    if V:
        return Res(V, False, digest(space, state[1], repr(ro), repr(co)), asserted)
    R, C = len(bro), (len(bco) if bco is not None else None)
    assert strand or R != C, "C05 needs non-square base tables to classify outputs"
    pr = [bro.index(i) for i in ro]
    pc = None if strand else [bco.index(j) for j in co]
    rowmap = {bp: p for p, bp in enumerate(pr)}
    colmap = None if strand else {bp: p for p, bp in enumerate(pc)}
    asserted += 1
    want_shape = (len(ro),) if strand else (len(ro), len(co))
    if tuple(part.shape) != want_shape:
        V.append(viol("shape", "shape %r, orders give %r" % (part.shape, want_shape)))
    tvals = read_all(part, names)
    for n in names:
        bk, bv = bvals[n]
        tk, tv = tvals[n]
        asserted += 1
        if bk == "exc":
            continue        # output undefined for this response (e.g. no mean measure)
        sfx = ""
        if n in ("rows_margin_proportion", "columns_margin_proportion") and np.ndim(bv) == 2:
            sfx = ":2d_fallback"      # assembled twice, see known finding KF1
        if tk == "exc":
            if n.startswith("columns_scale_mean_pairwise_indices") and len([i for i in ro if i >= 0]) == 0 or \
                    (n.startswith("columns_scale_mean_pairwise_indices") and tv == "TypeError"):
                sfx = ":no_valued_row_displayed"
            V.append(viol("output:%s%s:exception" % (n, sfx), "%s is defined in the base run but raises %s after "
                          "the transform" % (n, tv)))
            continue
        if n in POSITION_VALUED:
            mode = POSITION_VALUED[n]
            if bv is None or tv is None:
                if not (bv is None and tv is None):
                    V.append(viol("output:%s" % n, "%s: None-ness differs" % n))
                continue
            if mode == "rowpos":
                exp = sorted(rowmap[p] for p in bv if p in rowmap)
                got = list(tv)
            elif mode == "colpos":
                exp = sorted(colmap[p] for p in bv if p in colmap)
                got = list(tv)
            elif mode == "cols_per_col":
                b = list(bv)
                exp = [_renumber(b[bp], colmap) for bp in pc]
                got = [tuple(sorted(x)) for x in tv]
            else:
                b = np.asarray(bv, dtype=object)
                if b.ndim != 2:
                    continue
                exp = [[_renumber(b[i][j], colmap) for j in pc] for i in pr]
                got = [[tuple(sorted(c)) for c in row] for row in np.asarray(tv, dtype=object).tolist()] if len(ro) and len(co) else []
                if not (len(ro) and len(co)):
                    exp = []
            if got != exp:
                cause = ""
                if n.startswith("columns_scale_mean_pairwise_indices"):
                    rvar = sch.vars[sch.dims[0][1]]
                    valued = [k for k, c in enumerate([c for c in getattr(rvar, "cats", []) if not c.get("missing")])
                              if c.get("numeric_value") is not None]
                    if any(k not in ro for k in valued):
                        cause = ":valued_row_not_displayed"
                V.append(viol("output:%s%s" % (n, cause), "%s: %r, base output renumbered through the order gives %r"
                              % (n, got, exp)))
            continue
        # classify by the base value's extent
        if n in SYNTHETIC:
            exp = np.asarray(bv)[np.ix_(pc, pc)] if np.asarray(bv).shape == (C, C) else bv
        elif bv is None or isinstance(bv, (str, bool)) or n in TABLE_LEVEL:
            exp = bv
        elif isinstance(bv, np.ndarray) and bv.ndim == 2 and not strand and bv.shape == (R, C):
            exp = bv[np.ix_(pr, pc)]
        elif isinstance(bv, (np.ndarray, tuple, list)) and np.ndim(bv) == 1 if not isinstance(bv, np.ndarray) else bv.ndim == 1:
            seq = list(bv)
            if len(seq) == R and (strand or R != C):
                exp = [seq[p] for p in pr]
            elif not strand and len(seq) == C and R != C:
                exp = [seq[p] for p in pc]
            else:
                exp = seq            # table-level vector (e.g. [min, max] range)
        else:
            exp = bv                 # scalar
        if n in TABLE_LEVEL:
            d = None if repr(to_list(tv)) == repr(to_list(exp)) else ((), tv, exp)
        else:
            d = first_diff(tv, exp) if not isinstance(exp, (str, bool)) else (None if tv == exp else ((), tv, exp))
        if d is not None:
            V.append(viol("output:%s%s" % (n, sfx), "%s at %s: %r, base output re-indexed by the order gives %r"
                          % (n, d[0], d[1], d[2])))
    # ---- absolute anchor of the relation: position i of labels / codes NAMES the vector that the order
    # ---- reports at i (element name / id for a base element, insertion name / id for a subtotal)
    for which, order, ins in ((0, ro, r_ins), (1, co, c_ins)):
        if order is None:
            continue
        var = sch.vars[sch.dims[which][1]]
        if var.kind != "CAT":
            continue
        vc = [c for c in var.cats if not c.get("missing")]
        names_ = [c["name"] for c in vc] + [i["name"] for i in ins]
        codes_ = [c["id"] for c in vc] + [i["id"] for i in ins]
        nb = len(vc)
        idx = [k if k >= 0 else nb + len(ins) + k for k in order]
        for out_name, table in ((("row_labels", "column_labels")[which], names_), (("row_codes", "column_codes")[which], codes_)):
            if not hasattr(part, out_name):
                continue
            asserted += 1
            got = list(getattr(part, out_name))
            exp = [table[k] for k in idx]
            if [str(x) for x in got] != [str(x) for x in exp]:
                V.append(viol("naming:%s" % out_name, "%s %r but the reported order %r names %r" % (out_name, got, order, exp)))
    ntv = ro != bro or (co is not None and co != bco)
    return Res(V, ntv, digest(space, state[1], repr(ro), repr(co)), asserted)
