# encoding: utf-8
"""C19 - array items may be referenced by alias, sub-variable id or element id alike.

Pure configuration space over (array dimension & id scheme, transform slot, item, spelling);
data fixed.  Relation: every public output is identical for all spellings of the same item;
a reference that matches nothing gives the output of omitting it and never raises.
"""

import copy
import itertools

import numpy as np

from cr.cube.cube import Cube

from mc import schemas as S
from mc.compare import first_diff
from mc.engine import Res, Space, digest, viol
from mc.model import EnumVar, MRVar, Schema, tabulate
from props.c05 import public_names, read_all

ID = "C19"
CHUNK = 12
RULE = ("states = (array dimension kind and element-id scheme, transform slot, item, spelling of the item) "
        "plus stale / malformed references per slot; non-trivial = the transform changes the output "
        "relative to no transform; distinct = distinct (slot, item, resulting display)")
ASSUMPTIONS = ["only unambiguous spellings are compared: a number is a position only when it is no element "
               "id of the dimension; schemes where a sub-variable id or alias of one item equals the element "
               "id of another are out of scope", "data fixed (4 respondents), values chosen so that items differ"]
TRUSTED = []

B2 = S.cat("b", 2, "last")


def _mr(scheme, derived=False):
    d = [{"pos": 1, "alias": "m_any", "name": "Any12", "members": ["m_1", "m_2"],
          "anchor": {"position": "after", "alias": "m_1"}}] if derived else None
    return S.mr("m", 3, id_scheme=scheme, derived=d)


DIMS = {}


def _reg(name, schema, arr_axis, data, post=None):
    DIMS[name] = dict(schema=schema, axis=arr_axis, data=data, post=post)


def _strip_aliases(resp):
    """items WITHOUT an alias (fused-variable 'scorecard' payloads): the element id doubles as the alias"""
    for dm in resp["result"]["dimensions"]:
        for sr in dm.get("references", {}).get("subreferences", []) or []:
            sr.pop("alias", None)
        for el in dm.get("type", {}).get("elements", []) or []:
            v = el.get("value")
            if isinstance(v, dict):
                v.get("references", {}).pop("alias", None)
    return resp


def _strip_subvar_ids(resp):
    """items WITHOUT a sub-variable id (`value.id` absent, as on fused variables): alias, element id and position remain"""
    for dm in resp["result"]["dimensions"]:
        for el in dm.get("type", {}).get("elements", []) or []:
            if isinstance(el.get("value"), dict):
                el["value"].pop("id", None)
    return resp


def _mr_data(n_items):
    # item k selected by k+1 respondents (so that sort orders are strict)
    rows = []
    pats = [(1, 0, 0), (1, 1, 0), (1, 1, 1), (0, 1, -1)][:4]
    return pats


for _scheme in ("1..n", "0..n-1", "10s"):
    _M = _mr(_scheme)
    _reg("mr_rows_%s" % _scheme, S.schema2("mr_rows_%s" % _scheme, _M, B2), 0,
         [((p, 1 + (i % 2)), 1, None) for i, p in enumerate(_mr_data(3))])
    _reg("mr_cols_%s" % _scheme, S.schema2("mr_cols_%s" % _scheme, B2, _M), 1,
         [((1 + (i % 2), p), 1, None) for i, p in enumerate(_mr_data(3))])
for _scheme in ("0..n-1", "1..n"):
    _M = _mr(_scheme)
    _reg("mrnoalias_rows_%s" % _scheme, S.schema2("mrnoalias_rows_%s" % _scheme, _M, B2), 0,
         [((p, 1 + (i % 2)), 1, None) for i, p in enumerate(_mr_data(3))], post=_strip_aliases)
    _reg("mrnoalias_cols_%s" % _scheme, S.schema2("mrnoalias_cols_%s" % _scheme, B2, _M), 1,
         [((1 + (i % 2), p), 1, None) for i, p in enumerate(_mr_data(3))], post=_strip_aliases)
# (a multiple-response dimension without `value.id` is not a supported input: Elements._hidden_transforms reads the id of
# every item whether or not a transform is present, so only categorical / numeric arrays get an id-less variant)
_Md = _mr("1..n", derived=True)
_reg("mr_rows_derived", S.schema2("mr_rows_derived", _Md, B2), 0,
     [((p, 1 + (i % 2)), 1, None) for i, p in enumerate(_mr_data(3))])
_reg("mr_cols_derived", S.schema2("mr_cols_derived", B2, _Md), 1,
     [((1 + (i % 2), p), 1, None) for i, p in enumerate(_mr_data(3))])
# sub-variable ids that are digit strings ("1","2","3") next to positional element ids 1..4 with one derived item, as
# in the repo's mr_insertions fixtures: "2" (sub-variable id of m_2) and 2 (element id of the derived item) are the
# same TEXT but name different items
_Mn = _mr("1..n", derived=True)
for _it in _Mn.items:
    if not _it["derived"]:
        _it["sid"] = str(int(_it["alias"].split("_")[1]))
_reg("mr_rows_numsid", S.schema2("mr_rows_numsid", _Mn, B2), 0,
     [((p, 1 + (i % 2)), 1, None) for i, p in enumerate(_mr_data(3))])
_reg("mr_cols_numsid", S.schema2("mr_cols_numsid", B2, _Mn), 1,
     [((1 + (i % 2), p), 1, None) for i, p in enumerate(_mr_data(3))])
_CA = S.ca("q", 3, 2, "last")
_reg("ca_items_rows", Schema("ca_items_rows", [_CA], [("ca_items", 0), ("ca_cats", 0)]), 0,
     [(((1, 1, 2),), 1, None), (((1, 2, 2),), 1, None), (((2, 1, -1),), 1, None), (((1, 1, 1),), 1, None)])
_reg("ca_items_cols", Schema("ca_items_cols", [_CA], [("ca_cats", 0), ("ca_items", 0)]), 1,
     [(((1, 1, 2),), 1, None), (((1, 2, 2),), 1, None), (((2, 1, -1),), 1, None), (((1, 1, 1),), 1, None)])
_reg("canosid_items_rows", Schema("canosid_items_rows", [_CA], [("ca_items", 0), ("ca_cats", 0)]), 0,
     DIMS["ca_items_rows"]["data"], post=_strip_subvar_ids)
_reg("canosid_items_cols", Schema("canosid_items_cols", [_CA], [("ca_cats", 0), ("ca_items", 0)]), 1,
     DIMS["ca_items_cols"]["data"], post=_strip_subvar_ids)
_CA0 = S.ca("q", 3, 2, "last")
for _p, _it in enumerate(_CA0.items):
    _it["eid"] = 10 * (_p + 1)        # element ids 10, 20, 30: positions 0..2 are no element ids
_reg("canosid10_items_rows", Schema("canosid10_items_rows", [_CA0], [("ca_items", 0), ("ca_cats", 0)]), 0,
     DIMS["ca_items_rows"]["data"], post=_strip_subvar_ids)
_NA = S.numarr("na", 3)
_reg("numarr_rows", Schema("numarr_rows", [B2], [("cat", 0)], numeric={"measures": ["mean"], "numarr": _NA}), 0,
     [((1,), 1, (1, 5, 9)), ((2,), 1, (3, None, 2)), ((1,), 1, (None, 6, 4)), ((2,), 1, (2, 2, 2))])
_DT = S.enum("t", "datetime", 3)
_reg("datetime_rows", S.schema2("datetime_rows", _DT, B2), 0,
     [((0, 1), 1, None), ((1, 1), 1, None), ((1, 2), 1, None), ((2, 2), 1, None), ((2, 1), 1, None), ((2, 2), 1, None)])
_reg("datetime_cols", S.schema2("datetime_cols", B2, _DT), 1,
     [((1, 0), 1, None), ((1, 1), 1, None), ((2, 1), 1, None), ((2, 2), 1, None), ((1, 2), 1, None), ((2, 2), 1, None)])
# element ids that are not the list positions: the missing element listed FIRST, and sparse ids
_DTF = S.enum("t", "datetime", 3, missing_first=True)
_reg("datetime_mf_rows", S.schema2("datetime_mf_rows", _DTF, B2), 0,
     [((0, 1), 1, None), ((1, 1), 1, None), ((1, 2), 1, None), ((2, 2), 1, None), ((2, 1), 1, None), ((3, 2), 1, None)])
_reg("datetime_mf_cols", S.schema2("datetime_mf_cols", B2, _DTF), 1,
     [((1, 0), 1, None), ((1, 1), 1, None), ((2, 1), 1, None), ((2, 2), 1, None), ((1, 2), 1, None), ((2, 3), 1, None)])
_DTS = EnumVar("t", "datetime", [(2, "2020-01-01"), (5, "2020-01-02"), (7, "2020-01-03")])
_reg("datetime_sparse_rows", S.schema2("datetime_sparse_rows", _DTS, B2), 0,
     [((2, 1), 1, None), ((5, 1), 1, None), ((5, 2), 1, None), ((7, 2), 1, None), ((7, 1), 1, None), ((8, 2), 1, None)])
SCHEMAS = {k: v["schema"] for k, v in DIMS.items()}


def items_of(dname):
    """list of dicts: canonical key + every unambiguous spelling, for each item of the array axis"""
    d = DIMS[dname]
    sch = d["schema"]
    if dname.startswith("numarr"):
        na = sch.numeric["numarr"]
        out = []
        for p, it in enumerate(na.items):
            out.append({"canon": it["alias"], "spellings": [it["alias"], it["sid"], p, str(p)], "derived": False,
                        "sid": it["sid"]})
        return out
    role, vi = sch.dims[d["axis"]] if not dname.startswith(("ca_items", "canosid")) else ("ca_items", 0)
    var = sch.vars[vi]
    if isinstance(var, EnumVar):
        return [{"canon": v, "spellings": [v, i, str(i)], "derived": False, "sid": None} for i, v in var.elements]
    eids = [it["eid"] for it in var.items]
    out = []
    if dname.endswith("numsid"):
        # a digit string that is one item's sub-variable id AND another item's element id is left out (the statement
        # does not rank the two readings); what remains: alias, int element id, and the sub-variable id / the string
        # element id where only one reading exists or both name the same item
        # (exception, from the docstring of translate_element_id - sub-variable id before parsed number - and the
        # comment there on derived items: a digit string that is a real item's sub-variable id and otherwise only a
        # DERIVED item's element id reads as the sub-variable id)
        sids = {it["sid"]: p for p, it in enumerate(var.items)}
        seid = {str(it["eid"]): p for p, it in enumerate(var.items) if not it.get("derived")}
        for p, it in enumerate(var.items):
            sp = [it["alias"], it["eid"]]
            for txt in (it["sid"],) + (() if it.get("derived") else (str(it["eid"]),)):
                if sids.get(txt, p) == p and seid.get(txt, p) == p and txt not in sp:
                    sp.append(txt)
            out.append({"canon": it["alias"], "spellings": sp, "derived": bool(it.get("derived")), "sid": it["sid"]})
        return out
    if dname.startswith("mrnoalias"):
        for p, it in enumerate(var.items):
            sp = [it["eid"], str(it["eid"]), it["sid"]]
            if p not in eids:
                sp += [p, str(p)]
            out.append({"canon": it["eid"], "spellings": sp, "derived": False, "sid": it["sid"]})
        return out
    nosid = "nosid" in dname
    for p, it in enumerate(var.items):
        sp = [it["alias"], it["eid"], str(it["eid"])] + ([] if nosid else [it["sid"]])
        if p not in eids:
            sp += [p, str(p)]
        out.append({"canon": it["alias"], "spellings": sp, "derived": bool(it.get("derived")),
                    "sid": None if nosid else it["sid"]})
    return out


SLOTS = ["hide", "rename", "fill", "explicit_first", "explicit_pair", "fixed_top", "fixed_bottom",
         "opposing_element", "opposing_insertion", "key_alias", "key_subvar_id"]
# two references to two DIFFERENT items of the same dimension in one cube (every ordered item pair x every spelling pair)
PAIR_SLOTS = ["pair:rename+hide", "pair:explicit", "pair:top+bottom", "pair:rename+opposing", "pair:hide+fixed"]
BAD = ["zz", -1, "-3", "1.5", 99, "99", None, [2], {"id": 1}]


def _states():
    out = []
    for dname in sorted(DIMS):
        its = items_of(dname)
        for slot in SLOTS:
            for k, it in enumerate(its):
                if slot == "opposing_insertion" and not it["derived"]:
                    continue
                if slot == "opposing_insertion" and DIMS[dname]["axis"] != 1:
                    continue
                if slot.startswith("key_") and dname.startswith("datetime"):
                    continue      # "key": alias|subvar_id only exists for array items
                for s in range(len(it["spellings"])):
                    out.append((dname, slot, k, s))
            for b in range(len(BAD)):
                if slot.startswith("key_") and dname.startswith("datetime"):
                    continue
                if isinstance(BAD[b], (list, dict)) and slot in ("hide", "rename", "fill", "key_alias", "key_subvar_id"):
                    continue      # those slots use the reference as a JSON object key: always a string
                out.append((dname, slot, -1, b))
        for slot in PAIR_SLOTS:
            for ka, kb in itertools.permutations(range(len(its)), 2):
                for sa in range(len(its[ka]["spellings"])):
                    for sb in range(len(its[kb]["spellings"])):
                        if sa or sb:
                            out.append((dname, slot, (ka, kb), (sa, sb)))
    return out


def _pair_transform(dname, slot, a, b):
    d = DIMS[dname]
    axis = d["axis"]
    me = "rows_dimension" if axis == 0 else "columns_dimension"
    opp = "columns_dimension" if axis == 0 else "rows_dimension"
    if slot == "pair:rename+hide":
        return {me: {"elements": {a: {"name": "RENAMED"}, b: {"hide": True}}}}
    if slot == "pair:explicit":
        return {me: {"order": {"type": "explicit", "element_ids": [a, b]}}}
    if slot == "pair:top+bottom":
        return {me: {"order": {"type": "label", "direction": "descending", "fixed": {"top": [a], "bottom": [b]}}}}
    if slot == "pair:hide+fixed":
        return {me: {"elements": {a: {"hide": True}},
                     "order": {"type": "label", "direction": "ascending", "fixed": {"bottom": [b]}}}}
    meas = "mean" if dname.startswith("numarr") else ("col_percent" if axis == 1 else "row_percent")
    return {me: {"elements": {a: {"name": "RENAMED"}}},
            opp: {"order": {"type": "opposing_element", "measure": meas, "element_id": b}}}


def spaces(tier):
    by = {}
    for st in _states():
        by.setdefault(st[0], []).append(st)
    return [Space(d, [(1, (lambda sts=sts: iter(sts)))], 1,
                  {"dimension": d, "slots": SLOTS + PAIR_SLOTS, "items": len(items_of(d)), "bad_references": [repr(b) for b in BAD]})
            for d, sts in sorted(by.items())]


def _transform(dname, slot, key, other_key=None):
    """transforms dict referencing `key` in `slot` (None = the slot left empty: reference omitted)"""
    d = DIMS[dname]
    axis = d["axis"]
    me = "rows_dimension" if axis == 0 else "columns_dimension"
    opp = "columns_dimension" if axis == 0 else "rows_dimension"
    has = key is not _OMIT
    t = {}
    if slot in ("hide", "rename", "fill"):
        val = {"hide": {"hide": True}, "rename": {"name": "RENAMED"}, "fill": {"fill": "#123456"}}[slot]
        t[me] = {"elements": ({key: val} if has else {})}
    elif slot == "explicit_first":
        t[me] = {"order": {"type": "explicit", "element_ids": ([key] if has else [])}}
    elif slot == "explicit_pair":
        t[me] = {"order": {"type": "explicit", "element_ids": ([other_key, key] if has else [other_key])}}
    elif slot in ("fixed_top", "fixed_bottom"):
        t[me] = {"order": {"type": "label", "direction": "ascending",
                           "fixed": {slot[6:]: ([key] if has else [])}}}
    elif slot == "opposing_element":
        meas = "col_percent" if axis == 1 else "row_percent"
        if dname.startswith("numarr"):
            meas = "mean"
        o = {"type": "opposing_element", "measure": meas}
        if has:
            o["element_id"] = key
        else:
            o["element_id"] = "__nothing__"
        t[opp] = {"order": o}
    elif slot == "opposing_insertion":
        o = {"type": "opposing_insertion", "measure": "col_percent", "insertion_id": key if has else "__nothing__"}
        t[opp] = {"order": o}
    elif slot == "key_alias":
        t[me] = {"elements": ({"key": "alias", key: {"hide": True}} if has else {"key": "alias"})}
    elif slot == "key_subvar_id":
        t[me] = {"elements": ({"key": "subvar_id", key: {"name": "RENAMED"}} if has else {"key": "subvar_id"})}
    return t


class _Omit:
    pass


_OMIT = _Omit()


def detail(space, state):
    dname, slot, k, s = state
    its = items_of(dname)
    if slot.startswith("pair:"):
        a, b = its[k[0]]["spellings"][s[0]], its[k[1]]["spellings"][s[1]]
        return {"dimension": dname, "slot": slot, "items": list(k), "references": [a, b],
                "transforms": repr(_pair_transform(dname, slot, a, b))}
    key = BAD[s] if k < 0 else its[k]["spellings"][s]
    return {"dimension": dname, "slot": slot, "item": k, "reference": key,
            "transforms": _transform(dname, slot, key, its[0]["canon"] if its else None)}


def _run(dname, t):
    d = DIMS[dname]
    resp = tabulate(d["schema"], d["data"])
    if d.get("post"):
        resp = d["post"](resp)
    part = Cube(resp, transforms=copy.deepcopy(t), population=100).partitions[0]
    names = public_names(part)
    vals = read_all(part, names)
    ro = [int(i) for i in part.row_order()]
    co = [int(i) for i in part.column_order()]
    return names, vals, ro, co


def _same(V, tag, a, b, what):
    names, va, roa, coa = a
    _, vb, rob, cob = b
    n = 0
    if (roa, coa) != (rob, cob):
        V.append(viol("%s:order" % tag, "%s: display order %r x %r, reference spelling gives %r x %r" % (what, roa, coa, rob, cob)))
        return 1
    for nm in names:
        n += 1
        (ka, xa), (kb, xb) = va[nm], vb[nm]
        if ka != kb:
            V.append(viol("%s:%s:exception" % (tag, nm), "%s: %s -> %r vs %r" % (what, nm, (ka, xa), (kb, xb))))
            continue
        if ka == "exc":
            continue
        if xa is None or xb is None or isinstance(xa, (str, bool)):
            if xa != xb and not (xa is None and xb is None):
                V.append(viol("%s:%s" % (tag, nm), "%s: %s = %r vs %r" % (what, nm, xa, xb)))
            continue
        if isinstance(xa, np.ndarray) and xa.dtype == object:
            if repr(xa.tolist()) != repr(np.asarray(xb, dtype=object).tolist()):
                V.append(viol("%s:%s" % (tag, nm), "%s: %s differs" % (what, nm)))
            continue
        d = first_diff(xa, xb)
        if d is not None:
            V.append(viol("%s:%s" % (tag, nm), "%s: %s at %s: %r vs %r" % (what, nm, d[0], d[1], d[2])))
    return n


def check(space, state):
    dname, slot, k, s = state
    its = items_of(dname)
    V = []
    if slot.startswith("pair:"):
        ia, ib = its[k[0]], its[k[1]]
        a, b = ia["spellings"][s[0]], ib["spellings"][s[1]]
        try:
            got = _run(dname, _pair_transform(dname, slot, a, b))
        except Exception as e:
            V.append(viol("%s:raises" % slot, "references %r, %r (items %r) in %s raise %s: %s"
                          % (a, b, k, slot, type(e).__name__, e)))
            return Res(V, False, None, 1)
        ref = _run(dname, _pair_transform(dname, slot, ia["canon"], ib["canon"]))
        n = _same(V, slot, got, ref, "items %r spelled %r, %r vs aliases %r, %r" % (k, a, b, ia["canon"], ib["canon"]))
        base = _run(dname, {})
        ntv = (got[2], got[3]) != (base[2], base[3]) or any(
            repr(got[1].get(nm)) != repr(base[1].get(nm)) for nm in ("row_labels", "column_labels"))
        return Res(V, bool(ntv), digest(dname, slot, k, repr(got[2]), repr(got[3])), n)
    other = its[0]["canon"] if k != 0 else its[1]["canon"]
    if k >= 0:
        it = its[k]
        key = it["spellings"][s]
        # slots keyed to one spelling only
        if slot == "key_alias" and key != it["canon"]:
            return Res([], False, None, 0)
        if slot == "key_subvar_id" and (it["sid"] is None or key != it["sid"]):
            return Res([], False, None, 0)
        if slot == "key_subvar_id":
            ref_t = _transform(dname, "rename", it["canon"], other)
        elif slot == "key_alias":
            ref_t = _transform(dname, "hide", it["canon"], other)
        else:
            ref_t = _transform(dname, slot, it["canon"], other)
        try:
            got = _run(dname, _transform(dname, slot, key, other))
        except Exception as e:
            V.append(viol("spelling:%s:raises" % slot, "reference %r (item %d) in slot %s raises %s: %s"
                          % (key, k, slot, type(e).__name__, e)))
            return Res(V, False, None, 1)
        ref = _run(dname, ref_t)
        n = _same(V, "spelling:%s" % slot, got, ref, "item %d spelled %r vs alias %r" % (k, key, it["canon"]))
        base = _run(dname, {})
        ntv = (got[2], got[3]) != (base[2], base[3]) or repr(got[1].get("row_labels")) != repr(base[1].get("row_labels")) \
            or repr(got[1].get("column_labels")) != repr(base[1].get("column_labels")) \
            or repr(got[1].get("rows_dimension_fills")) != repr(base[1].get("rows_dimension_fills"))
        return Res(V, bool(ntv), digest(dname, slot, k, repr(got[2]), repr(got[3])), n)
    # ---- a reference that matches nothing == omitting it, and never raises
    bad = BAD[s]
    if slot in ("key_alias", "key_subvar_id") and bad is None:
        return Res([], False, None, 0)
    try:
        got = _run(dname, _transform(dname, slot, bad, other))
    except Exception as e:
        kind = "bad_reference:%s:raises:%s" % (slot, "None" if bad is None else type(bad).__name__)
        V.append(viol(kind, "reference %r in slot %s raises %s: %s" % (bad, slot, type(e).__name__, e)))
        return Res(V, False, None, 1)
    ref = _run(dname, _transform(dname, slot, _OMIT, other))
    n = _same(V, "bad_reference:%s" % slot, got, ref, "unmatched reference %r vs omitted" % (bad,))
    return Res(V, False, digest(dname, slot, "bad", repr(got[2]), repr(got[3])), n)
