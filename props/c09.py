# encoding: utf-8
"""C09 - visibility: hidden iff asked, pruned iff empty by unweighted counts."""

import itertools

import numpy as np

from cr.cube.cube import Cube

from mc import schemas as S
from mc.common2d import subtotal
from mc.compare import first_diff
from mc.engine import Res, Space, digest, multisets, viol
from mc.model import MIS, OTH, SEL, Schema, tabulate
from mc.partition import partition_oracles

ID = "C09"
RULE = ("states = (multiset of <=N respondents with weights in {0,0.5,1,2} (largest spaces: {0,0.5,2} in the quick tier, "
        "{0,2} from the second respondent on in the thorough tier), hide subset, prune flags on "
        "both dimensions, subtotal / hidden-subtotal option); non-trivial = pruning enabled and at least "
        "one vector empty and one non-empty; distinct = distinct (config, displayed order)")
ASSUMPTIONS = ["'empty' is asserted only where the statement decides it: a positive unweighted cell count "
               "=> kept; zero unweighted base over the opposing dimension => pruned; MR item answered but "
               "never selected => kept (pruned against another MR dimension); all other cases are decided "
               "by requiring the same visibility as the all-weights-1 run of the same respondents"]
TRUSTED = []
W = (0, 0.5, 1, 2)

A3 = S.cat("a", 3, "mid")
B2 = S.cat("b", 2, "first")
M2 = S.mr("m", 2)
N2 = S.mr("n", 2)
CA = S.ca("q", 2, 2, "last")
# an MR variable with a derived item (m_1 or m_2), payload position 1
MD = S.mr("m", 2, derived=[{"pos": 1, "alias": "d_12", "name": "d_12", "members": ["m_1", "m_2"],
                            "anchor": {"position": "after", "alias": "m_1"}}])

BASES = {
    "cat3_x_cat2": (S.schema2("cat3_x_cat2", A3, B2, weighted=True), 2, 3),
    "cat2_x_cat3": (S.schema2("cat2_x_cat3", B2, A3, weighted=True), 1, 2),
    "cat3_x_mr": (S.schema2("cat3_x_mr", A3, M2, weighted=True), 1, 2),
    "mr_x_cat3": (S.schema2("mr_x_cat3", M2, A3, weighted=True), 1, 2),
    "mr_x_mr": (S.schema2("mr_x_mr", M2, N2, weighted=True), 1, 2),
    "ca_items_x_cats": (Schema("ca_items_x_cats", [CA], [("ca_items", 0), ("ca_cats", 0)], weighted=True), 1, 2),
    "datetime_x_cat2": (S.schema2("datetime_x_cat2", S.enum("e", "datetime", 3, missing_first=True), B2, weighted=True), 1, 2),
    "cat3_x_text": (S.schema2("cat3_x_text", A3, S.enum("e", "text", 2), weighted=True), 1, 2),
    "catdate3_x_mr": (S.schema2("catdate3_x_mr", S.cat("d", 3, "first", date=True), M2, weighted=True), 1, 2),
    "cat2_x_mrd": (S.schema2("cat2_x_mrd", B2, MD, weighted=True), 1, 2),
    "mrd_x_cat2": (S.schema2("mrd_x_cat2", MD, B2, weighted=True), 1, 2),
    "mrd_1d": (Schema("mrd_1d", [MD], [("mr", 0)], weighted=True), 2, 3),
    "cat3_1d": (Schema("cat3_1d", [A3], [("cat", 0)], weighted=True), 2, 4),
    "mr_1d": (Schema("mr_1d", [M2], [("mr", 0)], weighted=True), 2, 3),
}
SCHEMAS = {k: v[0] for k, v in BASES.items()}
PROFILES = {k: v[0].profiles(W) for k, v in BASES.items()}
# (row subtotal, column subtotal) options
SUBS = [("none", "none"), ("plain", "none"), ("hidden", "none"), ("none", "plain"), ("plain", "plain"),
        ("view_hidden", "none"), ("view_plain", "none"),       # the same subtotal defined on the variable's view
        ("sortfixed", "none")]       # rows sorted by label with the first / last element in the fixed lists
# derived-item schemas: payload order / an explicit order on the MR dimension (different collator)
SUBS_MRD = [("none", "none"), ("explicit", "explicit")]


def _nelems(sch, which):
    dims = sch.dims
    role, vi = dims[which]
    var = sch.vars[vi]
    if role in ("mr", "ca_items"):
        return len(var.items)
    return len(var.valid_ids)


def _configs(name):
    sch = SCHEMAS[name]
    nr = _nelems(sch, 0)
    two_d = len(sch.dims) == 2 or sch.dims[0][0] == "ca_items"
    nc = _nelems(sch, 1) if two_d else 0
    out = []
    rrole = sch.dims[0][0]
    crole = sch.dims[1][0] if two_d else None
    for hr in range(2 ** nr):
        for hc in ([0] if not two_d else (0, 1, 2 ** nc - 1)):
            for pr in (False, True):
                for pc in ((False, True) if two_d else (False,)):
                    for sub in (SUBS_MRD if "mrd" in name else SUBS):
                        out.append((hr, hc, pr, pc, sub))
    return out


CONFIGS = {k: _configs(k) for k in BASES}


def spaces(tier):
    out = []
    for name in sorted(BASES):
        sch, q, t = BASES[name]
        n = q if tier == "quick" else t
        npf = len(PROFILES[name])

        # quick tier of the largest space: respondents' weights from {0, 0.5, 2} only
        idx = list(range(npf))
        if tier == "quick" and name == "cat3_x_cat2":
            idx = [i for i, pf in enumerate(PROFILES[name]) if pf[1] != 1]

        # thorough tier of the large spaces: from the second respondent on, weights from {0, 2} only
        idx_deep = idx
        if tier == "thorough" and name in ("mr_x_mr", "cat3_x_cat2", "catdate3_x_mr", "cat3_x_mr", "mr_x_cat3"):
            idx_deep = [i for i, pf in enumerate(PROFILES[name]) if pf[1] in (0, 2)]

        def level(k, idx=idx, idx_deep=idx_deep, ncf=len(CONFIGS[name])):
            def gen():
                use = idx if k < 2 else idx_deep
                for ms in multisets(len(use), k):
                    real = tuple(use[j] for j in ms)
                    for c in range(ncf):
                        yield (real, c)
            return gen
        npf = len(idx)
        out.append(Space(name, [(k, level(k)) for k in range(0, n + 1)], npf,
                         {"schema": name, "profiles": npf, "configs": len(CONFIGS[name]), "weights": list(W),
                          "max_respondents": n}))
    return out


def _transforms(sch, cfg):
    hr, hc, pr, pc, sub = cfg
    t = {}
    keys = []
    for which, (mask, prune, dimname) in enumerate(((hr, pr, "rows_dimension"), (hc, pc, "columns_dimension"))):
        if which >= len(sch.dims) and not (sch.dims[0][0] == "ca_items"):
            continue
        if which == 1 and len(sch.dims) < 2:
            continue
        role, vi = sch.dims[which]
        var = sch.vars[vi]
        d = {}
        if role in ("mr", "ca_items"):
            ids = [it["alias"] for it in var.items]
        else:
            ids = var.valid_ids
        hid = {str(ids[i]): {"hide": True} for i in range(len(ids)) if mask >> i & 1}
        if hid:
            d["elements"] = hid
        if prune:
            d["prune"] = True
        if sub[which] == "sortfixed" and role in ("cat", "mr"):
            d["order"] = {"type": "label", "fixed": {"top": [ids[0]], "bottom": [ids[-1]]}}
        if sub[which] == "explicit" and role == "mr":
            d["order"] = {"type": "explicit", "element_ids": [it["alias"] for it in reversed(var.items)
                                                              if not it.get("derived")]}
        if sub[which] in ("plain", "hidden") and role == "cat":
            ins = subtotal("s12", [1, 2], anchor="top", sid=1)
            if sub[which] == "hidden":
                ins["hide"] = True
            d["insertions"] = [ins]
        if d:
            t[dimname] = d
    return t


_VIEW = {}


def _schema_for(space, sub):
    """the space's schema, with the rows subtotal moved to the variable's view for the view_* options"""
    sch = SCHEMAS[space]
    if not sub[0].startswith("view_") or sch.dims[0][0] != "cat":
        return sch
    key = (space, sub[0])
    if key not in _VIEW:
        from mc.model import CatVar
        vi = sch.dims[0][1]
        v = sch.vars[vi]
        ins = subtotal("s12", [1, 2], anchor="top", sid=1)
        if sub[0] == "view_hidden":
            ins["hide"] = True
        vars_ = list(sch.vars)
        vars_[vi] = CatVar(v.alias, v.cats, view_insertions=[ins])
        _VIEW[key] = Schema(sch.name, vars_, sch.dims, weighted=sch.weighted, numeric=sch.numeric)
    return _VIEW[key]


def detail(space, state):
    sch = SCHEMAS[space]
    cfg = CONFIGS[space][state[1]]
    return {"schema": space, "dims": sch.dims, "transforms": _transforms(sch, cfg),
            "respondents": [{"answers": r[0], "weight": r[1]} for r in (PROFILES[space][i] for i in state[0])]}


def _emptiness(orc, which, vs_mr):
    """per base element of dimension `which`: True (must be pruned), False (must be kept),
    None (statement silent) - unweighted only."""
    n = len(orc.rows) if which == 0 else len(orc.cols)
    m = len(orc.cols) if which == 0 else len(orc.rows)
    out = []
    for k in range(n):
        cnt = base = 0
        answered = False
        for r in orc.data:
            for o in range(m):
                i, j = (k, o) if which == 0 else (o, k)
                mr, vr, mc, vc = orc._base_preds(r, i, j)
                mine, other_valid, my_valid = (mr, vc, vr) if which == 0 else (mc, vr, vc)
                if mr and mc:
                    cnt += 1
                if mine and other_valid:
                    base += 1
                if my_valid and other_valid:
                    answered = True
        ax = orc.rows if which == 0 else orc.cols
        if cnt > 0:
            out.append(False)
        elif ax.kind == "MR":
            if vs_mr:
                out.append(True if base == 0 else None)     # never selected (with eligible opposing) => pruned
            else:
                out.append(False if answered else True)     # answered, never selected => kept
        elif base == 0:
            out.append(True)
        else:
            out.append(None)
    return out


def check(space, state):
    cfg = CONFIGS[space][state[1]]
    hr, hc, pr, pc, sub = cfg
    sch = _schema_for(space, sub)
    data = [PROFILES[space][i] for i in state[0]]
    t = _transforms(sch, cfg)
    part = Cube(tabulate(sch, data), transforms=t).partitions[0]
    data1 = [(a, 1, x) for a, w, x in data]
    part1 = Cube(tabulate(sch, data1), transforms=t).partitions[0]
    kind, _l, orc = partition_oracles(sch, data)[0]
    V = []
    asserted = 0
    ro = [int(i) for i in part.row_order()]
    ro1 = [int(i) for i in part1.row_order()]
    asserted += 1
    if ro != ro1:
        V.append(viol("weights_matter:rows", "row order %r with weights, %r with all weights 1" % (ro, ro1)))
    if kind == "strand":
        rows = orc.rows
        n = len(rows)
        for k in range(n):
            hidden = bool(hr >> k & 1)
            cnt = sum(1 for r in orc.data if rows.member(r, k))
            elig = sum(1 for r in orc.data if rows.valid(r, k))
            if rows.kind == "MR":
                empty = elig == 0
            else:
                empty = cnt == 0
            want_absent = hidden or (pr and empty)
            asserted += 1
            if (k not in ro) != want_absent:
                V.append(viol("strand:visibility", "row %d: displayed=%s, hidden=%s prune=%s empty=%s"
                              % (k, k in ro, hidden, pr, empty)))
        has_sub = sub[0] in ("plain", "view_plain") and rows.kind != "MR"
        asserted += 1
        if (any(i < 0 for i in ro)) != has_sub:
            V.append(viol("strand:subtotal_visibility", "subtotal displayed=%s expected=%s (%s)"
                          % (any(i < 0 for i in ro), has_sub, sub[0])))
        asserted += 1
        po = [int(x) for x in part.payload_order if not str(x).startswith("ins_")]
        if po != sorted(i for i in ro if i >= 0):
            V.append(viol("strand:payload_order", "payload_order lists base rows %r, displayed base rows are %r"
                          % (po, sorted(i for i in ro if i >= 0))))
        asserted += 1
        if tuple(part.shape) != (len(ro),) or part.is_empty != (len(ro) == 0):
            V.append(viol("strand:shape", "shape %r / is_empty %r vs order %r" % (part.shape, part.is_empty, ro)))
        ntv = pr and 0 < len([k for k in range(n) if k in ro]) < n
        return Res(V, bool(ntv), digest(space, state[1], repr(ro)), asserted)

    co = [int(i) for i in part.column_order()]
    co1 = [int(i) for i in part1.column_order()]
    asserted += 1
    if co != co1:
        V.append(viol("weights_matter:columns", "column order %r with weights, %r with all weights 1" % (co, co1)))
    vs_mr = orc.rows.kind == "MR" and orc.cols.kind == "MR"
    er = _emptiness(orc, 0, vs_mr)
    ec = _emptiness(orc, 1, vs_mr)
    for which, (order, mask, prune, emp, n) in enumerate(((ro, hr, pr, er, len(orc.rows)), (co, hc, pc, ec, len(orc.cols)))):
        for k in range(n):
            hidden = bool(mask >> k & 1)
            shown = k in order
            asserted += 1
            if hidden and shown:
                V.append(viol("visibility:hidden_shown", "%s %d is hidden but displayed" % (("row", "column")[which], k)))
            elif not hidden and not prune and not shown:
                V.append(viol("visibility:dropped", "%s %d neither hidden nor prunable but absent" % (("row", "column")[which], k)))
            elif not hidden and prune and emp[k] is not None and shown == emp[k]:
                V.append(viol("visibility:prune:%s" % ("kept_empty" if shown else "pruned_nonempty"),
                              "%s %d: displayed=%s, empty (unweighted)=%s" % (("row", "column")[which], k, shown, emp[k])))
    # subtotal rule: never pruned individually; gone only when pruning is enabled on the
    # OPPOSING dimension and every opposing base vector is empty (by unweighted counts -
    # hiding plays no part), or when the insertion itself is flagged hidden
    for which, (order, opp_prune, opp_emp, name) in enumerate(((ro, pc, ec, "row"), (co, pr, er, "column"))):
        if sub[which] in ("none", "explicit", "sortfixed") or sch.dims[which][0] != "cat":
            continue
        shown = any(i < 0 for i in order)
        if sub[which] in ("hidden", "view_hidden"):
            want = False
        elif opp_prune and all(e is True for e in opp_emp):
            want = False
        elif not opp_prune or any(e is False for e in opp_emp):
            want = True
        else:
            want = None
        asserted += 1
        if want is not None and shown != want:
            V.append(viol("visibility:subtotal:%s" % name, "%s subtotal displayed=%s, expected %s (%s, opposing prune=%s, "
                          "opposing emptiness %r)" % (name, shown, want, sub[which], opp_prune, opp_emp)))
    # payload_order lists exactly the displayed base rows, in payload order
    asserted += 1
    po = [int(x) for x in part.payload_order if not str(x).startswith("ins_")]
    if po != sorted(i for i in ro if i >= 0):
        V.append(viol("payload_order:rows", "payload_order lists base rows %r, displayed base rows are %r"
                      % (po, sorted(i for i in ro if i >= 0))))
    asserted += 1
    if tuple(part.shape) != (len(ro), len(co)) or part.is_empty != (len(ro) == 0 or len(co) == 0):
        V.append(viol("shape", "shape %r / is_empty %r vs orders %r x %r" % (part.shape, part.is_empty, ro, co)))
    asserted += 1
    if len(part.row_labels) != len(ro) or len(part.column_labels) != len(co):
        V.append(viol("labels_extent", "labels do not match the order extent"))
    ntv = (pr or pc) and (True in er or True in ec) and (False in er or False in ec)
    return Res(V, bool(ntv), digest(space, state[1], repr(ro), repr(co)), asserted)
