# encoding: utf-8
"""C03 - proportions are count over base, bounded, and sum to one."""

import math

import numpy as np

from cr.cube.cube import Cube

from mc.common2d import (SCALES, Reg, display_map, expected_display, scale_invariant, scaled_parts, std_pairings,
                         transforms_for, with_subtotals)
from mc.model import tabulate
from mc.compare import arr_bytes, first_diff, num_eq, to_list
from mc.engine import Res, digest, viol
from mc.engine import Space
from mc.oracle import div

ID = "C03"
CHUNK = 100
RULE = ("states = (multiset of <=N respondents incl. the empty survey, insertion config) per "
        "schema, all enumerated; non-trivial = at least one defined (non-NaN) proportion AND "
        "at least one zero base in the same table, or any positive count; distinct = "
        "distinct (schema, proportion tensors); in diffpct_* spaces non-trivial = some proportion is "
        "negative")
ASSUMPTIONS = ["count/base, range and sum-to-one claims: plain subtotals only (what a difference shows is "
               "C04's); the x100 claim is also checked on tables with subtotal differences (diffpct_* "
               "spaces, which reuse C04's insertion alphabets)", "weights {1,2}"]
TRUSTED = ["numpy"]

REG = std_pairings(Reg())
# rows with a category that carries no numeric value (scale statistics skip it; proportions must not)
from mc import schemas as _S   # noqa: E402
from mc.common2d import subtotal as _sub   # noqa: E402
REG.add(_S.schema2("catnv3_x_cat2", _S.cat("a", 3, "mid", values=[1, None, 3]), _S.cat("b", 2, "first"), weighted=True), (1, 2),
        configs=[{}], quick=2, thorough=3)
REG.add(_S.schema2("tinyw_cat2_x_cat2", _S.cat("a", 2, "last"), _S.cat("b", 2, "first"), weighted=True), (1e-11, 3e-11),
        configs=[{}, {"rows": [_sub("r12", [1, 2], anchor="top", sid=1)], "cols": [_sub("c12", [1, 2], anchor="bottom", sid=1)]}],
        quick=3, thorough=4)
REG.add(_S.schema2("tinyw_cat2_x_mr", _S.cat("a", 2, "last"), _S.mr("m", 2), weighted=True), (1e-11, 3e-11), configs=[{}],
        quick=2, thorough=2)
SCHEMAS = REG.schemas
# outputs read FIRST on an untouched partition by the order-of-reads guard (they share cached blocks with the
# proportions or are computed from them)
READ_FIRST = ["smoothed_columns_scale_mean", "smoothed_column_proportions", "columns_scale_mean", "rows_scale_mean",
              "population_counts", "zscores", "column_std_err", "row_std_err", "table_std_err", "column_index",
              "rows_margin_proportion", "columns_margin_proportion"]


# the x100 relation on tables that carry subtotal DIFFERENCES (negative and NaN proportions)
DIFFPCT = ["small_rows_cat_x_cat", "small_cols_cat_x_cat", "small_wave_rows", "small_wave_cols",
           "both_cat3_x_cat3", "pair_strand", "wave_strand", "arith_rows_cat_x_mr", "arith_cols_mr_x_cat"]


def _c04():
    import props.c04 as c04
    return c04


def spaces(tier):
    out = REG.spaces(tier)
    for sp in _c04().spaces(tier):
        if sp.name in DIFFPCT:
            out.append(Space("diffpct_" + sp.name, sp.levels, sp.fanout, sp.bounds))
    return out


def detail(space, state):
    if space.startswith("diffpct_"):
        return _c04().detail(space[8:], state)
    return REG.detail(space, state)


def _check_diffpct(space, state):
    from cr.cube.cube import Cube
    from mc.common2d import transforms_for
    from mc.model import tabulate
    c04 = _c04()
    sch, data, cfg = c04._unpack(space[8:], state)
    part = Cube(tabulate(sch, data), transforms=transforms_for(cfg)).partitions[0]
    V, asserted, outs, neg = [], 0, [], False
    names = (("table_proportions", "table_percentages"),) if part.ndim == 1 else (
        ("row_proportions", "row_percentages"), ("column_proportions", "column_percentages"),
        ("table_proportions", "table_percentages"))
    for pn, qn in names:
        p = np.asarray(getattr(part, pn), dtype=float)
        q = getattr(part, qn)
        asserted += 1
        d = first_diff(q, (100 * p).tolist())
        if d is not None:
            V.append(viol(qn + ":x100", "%s cell %s: library %r, 100 x %s is %r" % (qn, d[0], d[1], pn, d[2]),
                          output=qn, cell=list(d[0])))
        neg = neg or bool(np.any(p[~np.isnan(p)] < 0))
        outs.append(arr_bytes(p))
    return Res(V, neg, digest(space, state[1], *outs), asserted)


def _assembled_twice(display, part, o):
    """What one gets by treating an already assembled (display-order) matrix as base
    values: subtotals are added and the display order applied a second time."""
    M = np.array(display, dtype=float)
    try:
        R = np.array([M[add, :].sum(axis=0) for _, add, _ in o.row_specs]).reshape(len(o.row_specs), M.shape[1])
        C = np.array([M[:, add].sum(axis=1) for _, add, _ in o.col_specs]).T.reshape(M.shape[0], len(o.col_specs))
        I = np.array([[M[np.ix_(ra, ca)].sum() for _, ca, _ in o.col_specs] for _, ra, _ in o.row_specs]
                     ).reshape(len(o.row_specs), len(o.col_specs))
        full = np.block([[M, C], [R, I]])
        return full[np.ix_([int(i) for i in part.row_order()], [int(i) for i in part.column_order()])]
    except Exception:
        return None


def check(space, state):
    if space.startswith("diffpct_"):
        return _check_diffpct(space, state)
    sch, data, cfg, cube, oracles = REG.build(space, state)
    V = []
    asserted = 0
    outs = []
    nontrivial = False

    def cmp(name, obs, exp):
        nonlocal asserted
        asserted += 1
        d = first_diff(obs, exp)
        if d is not None:
            V.append(viol(name, "%s cell %s: library %r, count/base from respondents %r"
                          % (name, d[0], d[1], d[2]), output=name, cell=list(d[0])))

    def bounded(name, arr):
        nonlocal asserted
        asserted += 1
        for x in np.asarray(arr, dtype=float).ravel():
            if not math.isnan(x) and not (-1e-12 <= x <= 1 + 1e-12):
                V.append(viol(name + ":range", "%s has a value outside [0,1]: %r" % (name, x), output=name))
                return

    scaled = {e: scaled_parts(sch, data, cfg, e) for e in SCALES} if (sch.weighted and data) else {}
    for pidx, (part, (kind, _lbl, orc)) in enumerate(zip(cube.partitions, oracles)):
        # weight-scale invariance: proportions are ratios of weighted counts
        for e, sp in scaled.items():
            asserted += scale_invariant(V, ["table_proportions"] if kind == "strand" else
                                        ["row_proportions", "column_proportions", "table_proportions"], part, sp[pidx], e)
        if kind == "strand":
            rows = orc.rows
            ins = cfg.get("rows") or []
            order = [int(i) for i in part.row_order()]
            wb, wc = orc.bases(True), orc.counts(True)
            subs = [sum(wc[rows.ids.index(i)] for i in s["kwargs"]["positive"] if i in rows.ids) for s in ins]
            exp = [div(wc[i], wb[i]) if i >= 0 else div(subs[len(ins) + i], wb[0]) for i in order]
            tp = part.table_proportions
            cmp("strand.table_proportions", tp, exp)
            cmp("strand.table_percentages", part.table_percentages, [100 * x for x in exp])
            bounded("strand.table_proportions", tp)
            if rows.kind in ("CAT", "CAT_DATE", "ENUM") and wb and wb[0] > 0:
                asserted += 1
                tot = sum(x for x, i in zip(to_list(tp), order) if i >= 0)
                if not num_eq(tot, 1.0, 1e-9, 1e-9):
                    V.append(viol("strand.sum_to_one", "table proportions of all base rows sum to %r" % tot))
            outs.append(arr_bytes(tp))
            nontrivial = nontrivial or any(c > 0 for c in wc)
            # order-of-reads guard: population outputs (all ones on a categorical-date strand) read FIRST on an
            # untouched strand must leave the proportions what they are
            fresh = Cube(tabulate(sch, data), transforms=transforms_for(cfg), population=1000).partitions[0]
            for first in ("population_counts", "population_counts_moe"):
                getattr(fresh, first)
            cmp("strand.table_proportions:after_population_reads", fresh.table_proportions, exp)
            cmp("strand.table_percentages:after_population_reads", fresh.table_percentages, [100 * x for x in exp])
            continue
        o = with_subtotals(orc, cfg)
        a = o.all(True)
        ro = display_map(part.row_order(), o.n_base_rows, len(o.row_specs))
        co = display_map(part.column_order(), o.n_base_cols, len(o.col_specs))
        exp = {}
        for name, base in (("row_proportions", "row_base"), ("column_proportions", "col_base"),
                           ("table_proportions", "table_base")):
            exp[name] = [[div(a["count"][i][j], a[base][i][j]) for j in co] for i in ro]
            obs = getattr(part, name)
            cmp(name, obs, exp[name])
            bounded(name, obs)
            pname = name.replace("proportions", "percentages")
            cmp(pname, getattr(part, pname), [[100 * x for x in row] for row in exp[name]])
        # ---- sum to one along a categorical dimension, over ALL base elements
        rp, cp, tp = (to_list(part.row_proportions), to_list(part.column_proportions),
                      to_list(part.table_proportions))
        base_r = [k for k, i in enumerate(ro) if i < o.n_base_rows]
        base_c = [k for k, j in enumerate(co) if j < o.n_base_cols]
        cat_kinds = ("CAT", "CAT_DATE", "ENUM", "CA_CAT")
        if o.cols.kind in cat_kinds:
            for k, i in enumerate(ro):
                if a["row_base"][i][0] > 0:
                    asserted += 1
                    tot = sum(rp[k][c] for c in base_c)
                    if not num_eq(tot, 1.0, 1e-9, 1e-9):
                        V.append(viol("row_proportions:sum_to_one",
                                      "row %d: proportions over all base columns sum to %r" % (k, tot)))
                        break
        if o.rows.kind in cat_kinds:
            for k, j in enumerate(co):
                if a["col_base"][0][j] > 0:
                    asserted += 1
                    tot = sum(cp[r][k] for r in base_r)
                    if not num_eq(tot, 1.0, 1e-9, 1e-9):
                        V.append(viol("column_proportions:sum_to_one",
                                      "column %d: proportions over all base rows sum to %r" % (k, tot)))
                        break
        if o.rows.kind in cat_kinds and o.cols.kind in cat_kinds and o.ca is None and a["table_base"][0][0] > 0:
            asserted += 1
            tot = sum(tp[r][c] for r in base_r for c in base_c)
            if not num_eq(tot, 1.0, 1e-9, 1e-9):
                V.append(viol("table_proportions:sum_to_one", "all base cells sum to %r" % tot))
        # ---- margin proportions = margin / table base
        rmp = ([[div(a["row_base"][i][j], a["table_base"][i][j]) for j in co] for i in ro]
               if o.cols.array else [div(a["row_base"][i][0], a["table_base"][i][0]) for i in ro])
        cmpp = ([[div(a["col_base"][i][j], a["table_base"][i][j]) for j in co] for i in ro]
                if o.rows.array else [div(a["col_base"][0][j], a["table_base"][0][j]) for j in co])
        for name, want, two_d in (("rows_margin_proportion", rmp, o.cols.array),
                                  ("columns_margin_proportion", cmpp, o.rows.array)):
            obs = getattr(part, name)
            asserted += 1
            d = first_diff(obs, want)
            if d is not None:
                kind = name
                # known finding KF1: the 2-D fallback divides two ASSEMBLED matrices and
                # assembles the quotient again - recognised by reproducing that exact value
                if two_d and (o.row_specs or o.col_specs):
                    twice = _assembled_twice(want, part, o)
                    if twice is not None and first_diff(obs, twice) is None:
                        kind = name + ":2d_fallback_assembled_twice"
                V.append(viol(kind, "%s cell %s: library %r, margin/table-base from respondents %r"
                              % (name, d[0], d[1], d[2]), output=name, cell=list(d[0])))
        outs.append(arr_bytes(part.row_proportions, part.column_proportions, part.table_proportions))
        nontrivial = nontrivial or any(x > 0 for row in a["count"] for x in row)
        # order-of-reads guard (single-partition schemas): other outputs first, then the proportions
        if len(oracles) == 1:
            fresh = Cube(tabulate(sch, data), transforms=transforms_for(cfg), population=1000).partitions[0]
            for first in READ_FIRST:
                try:
                    getattr(fresh, first)
                except Exception:
                    pass
            for name in ("row_proportions", "column_proportions", "table_proportions"):
                cmp(name + ":after_other_reads", getattr(fresh, name), exp[name])
    return Res(V, nontrivial, digest(space, state[1], *outs), asserted)
