# encoding: utf-8
"""C06 - partitioning of 3-D and multi-cube responses restricts to the right respondents.

Differential oracle: partition k of a 3-D cube must equal, on EVERY public output found by
introspection, the library's own 2-D analysis of the data set restricted (by the model) to
the respondents who belong to table element k; CA-as-0th strands must equal the univariate
analysis of the sub-variable; partition sets line up; inflated numeric-summary cubes keep
every value of the un-inflated cube.
"""

import copy

import numpy as np

from cr.cube.cube import Cube, CubeSet

from mc import schemas as S
from mc.common2d import subtotal
from mc.compare import first_diff, to_list
from mc.engine import Res, Space, digest, multisets, viol
from mc.model import CatVar, SEL, Schema, tabulate

ID = "C06"
CHUNK = 16
RULE = ("states = (multiset of <=N respondents, transform config) over 3-D schemas (table = CAT with the "
        "missing category first/mid/last, MR, CA items) and multi-cube sets (CA-as-0th, tab-book, numeric "
        "summary); non-trivial = at least two partitions differ in their counts; distinct = distinct "
        "per-partition count tensors")
ASSUMPTIONS = ["outputs naming the table (table_name, tab_label, tab_alias, cube_index) are checked "
               "separately, not by the differential",
               "for a CA-items table the 2-D reference treats item k as a plain categorical variable, so "
               "dimension-type / name outputs are excluded there"]
TRUSTED = ["numpy"]

SKIP = {"table_name", "tab_label", "tab_alias", "cube_index", "min_base_size_mask", "pairwise_significance_tests",
        "summary_pairwise_indices", "title"}
CA_SKIP = {"dimension_types", "rows_dimension_type", "name", "description", "rows_dimension_name",
           "rows_dimension_alias", "rows_dimension_description", "variable_name", "row_aliases",
           "selected_category_labels", "columns_dimension_type", "columns_dimension_name"}

A2 = S.cat("a", 2, "last", values=[1, 2])
B2 = S.cat("b", 2, "first")
M2 = S.mr("m", 2)
N2 = S.mr("n", 2)
CA = S.ca("q", 2, 2, "mid")
a_ins = [subtotal("a12", [1, 2], anchor="top", sid=1)]
CFG = [{}, {"rows_dimension": {"insertions": a_ins, "elements": {"1": {"hide": True}}},
            "columns_dimension": {"prune": True}}]

SP = {}
SCHEMAS = {}


def _reg3(name, tvar, trole, rvar, rrole, cvar, crole, quick, thorough, cfgs=CFG, weights=(1, 2), only=None,
          nums=(None,), **flags):
    sch3 = Schema(name, [tvar, rvar, cvar], [(trole, 0), (rrole, 1), (crole, 2)], weighted=len(weights) > 1, **flags)
    sch2 = Schema(name + "_2d", [tvar, rvar, cvar], [(rrole, 1), (crole, 2)], weighted=len(weights) > 1, **flags)
    SCHEMAS[name] = sch3
    SP[name] = dict(kind="3d", sch3=sch3, sch2=sch2, quick=quick, thorough=thorough, cfgs=cfgs,
                    profiles=sch3.profiles(weights, nums), only=only)


for _p in ("first", "mid", "last"):
    _reg3("cat_%s_x_cat_x_cat" % _p, S.cat("t", 2, _p), "cat", A2, "cat", B2, "cat", 2, 3)
_reg3("catdate_first_x_cat_x_cat", S.cat("t", 2, "first", date=True), "cat", A2, "cat", B2, "cat", 2, 3, cfgs=[{}])
_reg3("datetime_first_x_cat_x_cat", S.enum("t", "datetime", 2, missing_first=True), "enum", A2, "cat", B2, "cat", 2, 3, cfgs=[{}])
_reg3("text_first_x_cat_x_mr", S.enum("t", "text", 2, missing_first=True), "enum", A2, "cat", M2, "mr", 1, 2, cfgs=[{}])
_reg3("cat_x_cat_x_mr", S.cat("t", 2, "first"), "cat", A2, "cat", M2, "mr", 1, 2)
_reg3("cat_x_mr_x_cat", S.cat("t", 2, "mid"), "cat", M2, "mr", A2, "cat", 1, 2, cfgs=[{}])
_reg3("mr_x_cat_x_cat", N2, "mr", A2, "cat", B2, "cat", 1, 2)
_reg3("mr_x_mr_x_cat", N2, "mr", M2, "mr", A2, "cat", 1, 1, cfgs=[{}])
_reg3("mr_x_cat_x_mr", N2, "mr", A2, "cat", M2, "mr", 1, 1, cfgs=[{}])
# overlap measures in 3-D cubes (pairwise tests between multiple-response columns)
OV_ONLY = {"counts", "column_proportions", "pairwise_indices", "column_weighted_bases"}
_reg3("mr_x_cat_x_mr_overlaps", N2, "mr", A2, "cat", M2, "mr", 2, 3, cfgs=[{}], weights=(1,), only=OV_ONLY, overlaps=True)
# the overlap statistics need several respondents before t is finite: a REDUCED profile alphabet
# (table item selected / other / both; two row categories; four column patterns) explored deeper
_reg3("mr_x_cat_x_mr_overlaps_deep", N2, "mr", A2, "cat", M2, "mr", 4, 5, cfgs=[{}], weights=(1,), only=OV_ONLY, overlaps=True)
SP["mr_x_cat_x_mr_overlaps_deep"]["profiles"] = [
    ((t, a, c), 1, None) for t in ((1, 0), (0, 0), (1, 1)) for a in (1, 2) for c in ((1, 0), (0, 1), (1, 1), (0, -1))]
_reg3("cat_x_cat_x_mr_overlaps", S.cat("t", 2, "first"), "cat", A2, "cat", M2, "mr", 2, 3, cfgs=[{}], weights=(1,),
      only=OV_ONLY, overlaps=True)

# squared-weight measure (effective-sample-size pairwise tests) in 3-D cubes, missing table category
# before / between / after the valid ones
SQ_ONLY = {"counts", "columns_squared_base", "column_weighted_bases", "pairwise_indices", "columns_margin"}
for _p in ("first", "mid"):
    _reg3("cat_%s_x_cat_x_cat_squared" % _p, S.cat("t", 2, _p), "cat", A2, "cat", B2, "cat", 2, 3, cfgs=[{}],
          only=SQ_ONLY, squared=True)
_reg3("mr_x_cat_x_cat_squared", N2, "mr", A2, "cat", B2, "cat", 1, 2, cfgs=[{}], only=SQ_ONLY, squared=True)

# numeric measures in 3-D cubes whose (table, rows) type pair differs from (rows, columns)
NUM_ONLY = {"counts", "unweighted_counts", "means", "sums", "stddev", "column_share_sum", "row_share_sum",
            "total_share_sum", "columns_base", "rows_base"}
_NUM3 = {"measures": ["mean", "sum", "stddev"], "valid_counts": True}
_reg3("cat_x_mr_x_cat_num", S.cat("t", 2, "first"), "cat", M2, "mr", A2, "cat", 1, 2, cfgs=[{}], weights=(1,),
      only=NUM_ONLY, nums=(None, 1, 3), numeric=dict(_NUM3))
_reg3("mr_x_cat_x_cat_num", N2, "mr", A2, "cat", B2, "cat", 1, 2, cfgs=[{}], weights=(1,),
      only=NUM_ONLY, nums=(None, 1, 3), numeric=dict(_NUM3))
_reg3("cat_x_cat_x_mr_num", S.cat("t", 2, "mid"), "cat", A2, "cat", M2, "mr", 1, 2, cfgs=[{}], weights=(1,),
      only=NUM_ONLY, nums=(None, 1, 3), numeric=dict(_NUM3))

CORE_ONLY = {"counts", "unweighted_counts", "column_index", "row_proportions", "column_proportions", "table_proportions",
             "zscores", "pvals", "rows_margin", "columns_margin", "table_base", "table_margin", "row_labels",
             "column_labels", "population_counts", "columns_scale_mean", "pairwise_indices"}
_reg3("mr_x_cat_x_cat_n2", N2, "mr", A2, "cat", B2, "cat", 2, 3, cfgs=[{}], weights=(1,), only=CORE_ONLY)
_reg3("mr_x_cat_x_mr_n2", N2, "mr", A2, "cat", M2, "mr", 0, 2, cfgs=[{}], weights=(1,), only=CORE_ONLY)
_reg3("mr_x_mr_x_cat_n2", N2, "mr", M2, "mr", A2, "cat", 0, 2, cfgs=[{}], weights=(1,), only=CORE_ONLY)
# CA items as the table dimension: [ca_items, ca_cats, cat]
_ca3 = Schema("ca_x_cat_3d", [CA, B2], [("ca_items", 0), ("ca_cats", 0), ("cat", 1)], weighted=True)
SCHEMAS["ca_x_cat_3d"] = _ca3
SP["ca_x_cat_3d"] = dict(kind="ca3d", sch3=_ca3, quick=2, thorough=3, cfgs=[{}, {"columns_dimension": {"prune": True}}],
                         profiles=_ca3.profiles((1, 2)))
# CA-as-0th multi-cube set: [CA cube, CA x CAT cube]
_ca2 = Schema("ca_2d", [CA, B2], [("ca_items", 0), ("ca_cats", 0)], weighted=True)
SCHEMAS["ca_as_0th"] = _ca2
SP["ca_as_0th"] = dict(kind="ca0th", sch_ca=_ca2, sch_x=_ca3, quick=2, thorough=3, cfgs=[{}], profiles=_ca3.profiles((1, 2)))
# tab-book: [CAT strand, CAT x CAT, CAT x MR]
_tb_vars = [A2, B2, M2]
_tb = [Schema("tb_1d", _tb_vars, [("cat", 0)], weighted=True),
       Schema("tb_axb", _tb_vars, [("cat", 0), ("cat", 1)], weighted=True),
       Schema("tb_axm", _tb_vars, [("cat", 0), ("mr", 2)], weighted=True)]
SCHEMAS["tabbook"] = _tb[1]
SP["tabbook"] = dict(kind="tabbook", schemas=_tb, quick=1, thorough=2, cfgs=[{}, {"rows_dimension": {"insertions": a_ins}}],
                     profiles=_tb[1].profiles((1, 2)))
# numeric summary: [0-D mean, mean by CAT, mean by MR]
_NUMREF = {"alias": "age", "name": "age"}
_ns = [Schema("ns_0d", _tb_vars, [], numeric={"measures": ["mean"], "valid_counts": True, "references": _NUMREF}),
       Schema("ns_by_b", _tb_vars, [("cat", 1)], numeric={"measures": ["mean"], "valid_counts": True, "references": _NUMREF}),
       Schema("ns_by_m", _tb_vars, [("mr", 2)], numeric={"measures": ["mean"], "valid_counts": True, "references": _NUMREF})]
SCHEMAS["numeric_summary"] = _ns[1]
SP["numeric_summary"] = dict(kind="numsum", schemas=_ns, quick=2, thorough=2, cfgs=[{}],
                             profiles=_ns[1].profiles((1,), (None, 1, 3)))


def spaces(tier):
    out = []
    for name in sorted(SP):
        sp = SP[name]
        n = sp["quick"] if tier == "quick" else sp["thorough"]
        npf = len(sp["profiles"])

        def level(k, npf=npf, ncf=len(sp["cfgs"])):
            def gen():
                for ms in multisets(npf, k):
                    for c in range(ncf):
                        yield (ms, c)
            return gen
        out.append(Space(name, [(k, level(k)) for k in range(0, n + 1)], npf,
                         {"kind": sp["kind"], "profiles": npf, "configs": len(sp["cfgs"]), "max_respondents": n}))
    return out


def detail(space, state):
    sp = SP[space]
    return {"space": space, "kind": sp["kind"], "transforms": sp["cfgs"][state[1]],
            "respondents": [{"answers": r[0], "weight": r[1], "num": r[2]} for r in (sp["profiles"][i] for i in state[0])]}


def _names(part, extra_skip=()):
    out = []
    for n in dir(type(part)):
        if n.startswith("_") or n in SKIP or n in extra_skip:
            continue
        attr = getattr(type(part), n, None)
        if callable(attr) and not hasattr(attr, "_fget"):
            continue
        out.append(n)
    return out


def _get(part, n):
    try:
        return ("ok", getattr(part, n))
    except Exception as e:
        return ("exc", type(e).__name__)


def compare_parts(V, tag, pa, pb, extra_skip=(), label="", only=None):
    """every public output of pa equals that of pb"""
    asserted = 0
    if type(pa).__name__ != type(pb).__name__:
        V.append(viol("%s:partition_type" % tag, "%s is a %s, reference is a %s" % (label, type(pa).__name__, type(pb).__name__)))
        return 1
    for n in _names(pa, extra_skip):
        if only is not None and n not in only:
            continue
        ka, va = _get(pa, n)
        kb, vb = _get(pb, n)
        asserted += 1
        if ka == "exc" or kb == "exc":
            if (ka, va if ka == "exc" else 0) != (kb, vb if kb == "exc" else 0):
                V.append(viol("%s:%s:exception" % (tag, n), "%s %s -> %r, reference -> %r" % (label, n, (ka, va), (kb, vb))))
            continue
        if va is None or vb is None or isinstance(va, (str, bool)):
            if va != vb and not (va is None and vb is None):
                V.append(viol("%s:%s" % (tag, n), "%s %s = %r, reference %r" % (label, n, va, vb)))
            continue
        if isinstance(va, np.ndarray) and va.dtype == object:
            if repr(va.tolist()) != repr(np.asarray(vb, dtype=object).tolist()):
                V.append(viol("%s:%s" % (tag, n), "%s %s differs from the reference" % (label, n)))
            continue
        d = first_diff(va, vb)
        if d is not None:
            V.append(viol("%s:%s" % (tag, n), "%s %s at %s: %r, reference gives %r" % (label, n, d[0], d[1], d[2])))
    for fn in ("row_order", "column_order"):
        if hasattr(pa, fn):
            asserted += 1
            if [int(i) for i in getattr(pa, fn)()] != [int(i) for i in getattr(pb, fn)()]:
                V.append(viol("%s:%s" % (tag, fn), "%s %s differs from the reference" % (label, fn)))
    # methods taking a selected column
    if hasattr(pa, "pairwise_significance_t_stats") and len(getattr(pa, "shape", ())) == 2 and pa.shape[1] > 0:
        for fn in ("pairwise_significance_t_stats", "pairwise_significance_p_vals"):
            for col in range(min(2, pa.shape[1])):
                asserted += 1
                try:
                    a, b = getattr(pa, fn)(col), getattr(pb, fn)(col)
                except Exception as e:
                    V.append(viol("%s:%s:exception" % (tag, fn), "%s %s(%d) raised %s" % (label, fn, col, type(e).__name__)))
                    continue
                d = first_diff(a, b)
                if d is not None:
                    V.append(viol("%s:%s" % (tag, fn), "%s %s(%d) at %s: %r, reference gives %r" % (label, fn, col, d[0], d[1], d[2])))
    return asserted


def check(space, state):
    sp = SP[space]
    data = [sp["profiles"][i] for i in state[0]]
    cfg = sp["cfgs"][state[1]]
    V = []
    asserted = 0
    outs = []
    kind = sp["kind"]
    if kind == "3d":
        sch3, sch2 = sp["sch3"], sp["sch2"]
        cube = Cube(tabulate(sch3, data), transforms=copy.deepcopy(cfg), population=1000, mask_size=2)
        parts = cube.partitions
        tvar = sch3.vars[0]
        if tvar.kind == "CAT":
            elems = [(c["name"], (lambda r, i=c["id"]: r[0][0] == i)) for c in tvar.cats if not c.get("missing")]
        elif tvar.kind == "ENUM":
            elems = [(None, (lambda r, i=e[0]: r[0][0] == i)) for e in tvar.elements]
        else:
            elems = [(it["name"], (lambda r, k=k: tvar.states(r[0][0])[k] == SEL)) for k, it in enumerate(tvar.items)]
        asserted += 1
        if len(parts) != len(elems):
            V.append(viol("partition_count", "%d partitions for %d valid table elements" % (len(parts), len(elems))))
            return Res(V, False, None, asserted)
        for k, (label, pred) in enumerate(elems):
            sub = [r for r in data if pred(r)]
            ref = Cube(tabulate(sch2, sub), transforms=copy.deepcopy(cfg), population=1000, mask_size=2).partitions[0]
            asserted += compare_parts(V, "3d", parts[k], ref, label="partition %d" % k, only=sp.get("only"))
            asserted += 1
            tn = parts[k].table_name
            if label is None:
                ok = isinstance(tn, str) and tn.startswith("%s: " % tvar.name)
                if not ok:
                    V.append(viol("3d:table_name", "partition %d table_name %r" % (k, tn)))
            elif tn != "%s: %s" % (tvar.name, label):
                V.append(viol("3d:table_name", "partition %d table_name %r, expected '%s: %s'" % (k, tn, tvar.name, label)))
            outs.append(np.asarray(parts[k].counts, dtype=float).tobytes())
    elif kind == "ca3d":
        sch3 = sp["sch3"]
        cube = Cube(tabulate(sch3, data), transforms=copy.deepcopy(cfg), population=1000, mask_size=2)
        parts = cube.partitions
        ca = sch3.vars[0]
        asserted += 1
        if len(parts) != len(ca.items):
            V.append(viol("partition_count", "%d partitions for %d sub-variables" % (len(parts), len(ca.items))))
            return Res(V, False, None, asserted)
        for k, it in enumerate(ca.items):
            item_var = CatVar(ca.alias, ca.cats, name=ca.name)
            s2 = Schema("item", [item_var, sch3.vars[1]], [("cat", 0), ("cat", 1)], weighted=True)
            d2 = [((r[0][0][k], r[0][1]), r[1], r[2]) for r in data]
            ref = Cube(tabulate(s2, d2), transforms=copy.deepcopy(cfg), population=1000, mask_size=2).partitions[0]
            asserted += compare_parts(V, "ca3d", parts[k], ref, extra_skip=CA_SKIP, label="partition %d" % k)
            asserted += 2
            if parts[k].tab_label != it["name"]:
                V.append(viol("ca3d:tab_label", "partition %d tab_label %r, expected %r" % (k, parts[k].tab_label, it["name"])))
            if parts[k].table_name != "%s: %s" % (ca.name, it["name"]):
                V.append(viol("ca3d:table_name", "partition %d table_name %r" % (k, parts[k].table_name)))
            outs.append(np.asarray(parts[k].counts, dtype=float).tobytes())
    elif kind == "ca0th":
        sch_ca, sch_x = sp["sch_ca"], sp["sch_x"]
        r1, r2 = tabulate(sch_ca, data), tabulate(sch_x, data)
        cs = CubeSet([r1, r2], [{}, {}], 1000, 2)
        asserted += 1
        if not cs.is_ca_as_0th:
            V.append(viol("ca0th:not_recognised", "CubeSet.is_ca_as_0th is False"))
        psets = cs.partition_sets
        ca = sch_ca.vars[0]
        asserted += 1
        if len(psets) != len(ca.items):
            V.append(viol("ca0th:partition_sets", "%d partition sets for %d sub-variables" % (len(psets), len(ca.items))))
            return Res(V, False, None, asserted)
        ref3 = Cube(tabulate(sch_x, data), cube_idx=1, population=1000, mask_size=2).partitions
        for k, it in enumerate(ca.items):
            item_var = CatVar(ca.alias, ca.cats, name=ca.name)
            s1 = Schema("item1d", [item_var], [("cat", 0)], weighted=True)
            d1 = [((r[0][0][k],), r[1], r[2]) for r in data]
            ref = Cube(tabulate(s1, d1), population=1000, mask_size=2).partitions[0]
            asserted += compare_parts(V, "ca0th:strand", psets[k][0], ref,
                                      extra_skip=CA_SKIP | {"rows_dimension_fills"}, label="strand %d" % k)
            asserted += compare_parts(V, "ca0th:zip", psets[k][1], ref3[k], label="set %d cube 1" % k)
            asserted += 1
            if psets[k][0].table_name != "%s: %s" % (ca.name, it["name"]) or psets[k][0].tab_label != it["name"]:
                V.append(viol("ca0th:table_name", "strand %d table_name %r tab_label %r" % (k, psets[k][0].table_name, psets[k][0].tab_label)))
            outs.append(np.asarray(psets[k][0].counts, dtype=float).tobytes())
    elif kind == "tabbook":
        resps = [tabulate(s, data) for s in sp["schemas"]]
        trs = [copy.deepcopy(cfg) for _ in resps]
        cs = CubeSet(resps, trs, 1000, 2)
        psets = cs.partition_sets
        asserted += 1
        if len(psets) != 1 or len(psets[0]) != len(resps):
            V.append(viol("tabbook:partition_sets", "partition_sets shape %r" % ([len(p) for p in psets],)))
            return Res(V, False, None, asserted)
        for j, s in enumerate(sp["schemas"]):
            ref = Cube(tabulate(s, data), transforms=copy.deepcopy(cfg), population=1000, mask_size=2).partitions[0]
            asserted += compare_parts(V, "tabbook", psets[0][j], ref, label="cube %d" % j)
            outs.append(np.asarray(psets[0][j].counts, dtype=float).tobytes())
    elif kind == "numsum":
        resps = [tabulate(s, data) for s in sp["schemas"]]
        plain = [Cube(tabulate(s, data), population=1000).partitions[0] for s in sp["schemas"]]
        cs = CubeSet(resps, [{} for _ in resps], 1000, 0)
        psets = cs.partition_sets
        asserted += 1
        if len(psets) != 1 or len(psets[0]) != 3:
            V.append(viol("numsum:partition_sets", "partition_sets shape %r" % ([len(p) for p in psets],)))
            return Res(V, False, None, asserted)
        infl = psets[0]
        # 0-D -> one-row strand ; 1-D -> 1 x n slice ; every value preserved
        asserted += 3
        d = first_diff(np.asarray(infl[0].means, dtype=float).ravel(), [plain[0].means])
        if d is not None or tuple(infl[0].shape) != (1,):
            V.append(viol("numsum:inflate_0d", "inflated 0-D means %r shape %r, un-inflated mean %r"
                          % (to_list(infl[0].means), infl[0].shape, plain[0].means)))
        for j in (1, 2):
            for nm in ("means", "counts", "unweighted_counts"):
                asserted += 1
                a = np.asarray(getattr(infl[j], nm), dtype=float)
                b = np.asarray(getattr(plain[j], nm), dtype=float)
                if a.shape != (1, b.shape[0]) or first_diff(a[0], b) is not None:
                    V.append(viol("numsum:inflate_1d:%s" % nm, "cube %d inflated %s %r, un-inflated %r"
                                  % (j, nm, a.tolist(), b.tolist())))
            asserted += 1
            if list(infl[j].column_labels) != list(plain[j].row_labels):
                V.append(viol("numsum:inflate_1d:labels", "column labels %r vs strand row labels %r"
                              % (list(infl[j].column_labels), list(plain[j].row_labels))))
        outs.append(np.asarray(infl[1].means, dtype=float).tobytes())
    ntv = len(set(outs)) > 1
    return Res(V, ntv, digest(space, state[1], *outs), asserted)
