# encoding: utf-8
"""C07 - anchored ordering: payload or explicit element order with subtotals at anchors.

Pure configuration space (data fixed).  Oracle = a short executable specification written
from the property statement (list elements, place each subtotal after its anchor / top /
bottom in definition order, drop hidden) - it does not use sort-key triples.
"""

import copy
import itertools

import numpy as np

from cr.cube.cube import Cube
from cr.cube.enums import ORDER_FORMAT

from mc import schemas as S
from mc.common2d import subtotal
from mc.compare import first_diff
from mc.engine import Res, Space, digest, viol
from mc.model import CatVar, MRVar, Schema, tabulate

ID = "C07"
RULE = ("states = transform configurations: (dimension size, insertion list with every anchor "
        "spelling, explicit id list (every sequence over ids+stale up to n+1, repeats incl.), hidden "
        "subset, prune flag / data variant, where the insertions are defined, id-less or not); "
        "non-trivial = the expected order differs from plain payload order; distinct = distinct "
        "observed orders")
ASSUMPTIONS = ["anchors are top/bottom (any case), element ids as int or numeric string, None, stale or "
               "missing ids; other free-text anchors are out of scope",
               "insertion ids are all present or all absent within one list"]
TRUSTED = []
STALE, MISS = 99, -1


# ------------------------------------------------------------------ executable spec
def norm_anchor(anchor, valid_ids):
    if anchor is None:
        return "bottom"
    if isinstance(anchor, str) and not anchor.lstrip("-").isdigit():
        return anchor.lower()
    a = int(anchor)
    return a if a in valid_ids else "bottom"


def spec_order(valid_ids, explicit, anchors, hidden_idx):
    """Expected display order as a list of ('e', idx) / ('s', k)."""
    if explicit is None:
        base = list(valid_ids)
    else:
        base = []
        for i in explicit:
            if i in valid_ids and i not in base:
                base.append(i)
        base += [i for i in valid_ids if i not in base]
    na = [norm_anchor(a, valid_ids) for a in anchors]
    out = [("s", k) for k, a in enumerate(na) if a == "top"]
    for i in base:
        out.append(("e", valid_ids.index(i)))
        out += [("s", k) for k, a in enumerate(na) if a == i]
    out += [("s", k) for k, a in enumerate(na) if a == "bottom"]
    return [x for x in out if not (x[0] == "e" and x[1] in hidden_idx)]


def payload_rank_ids(valid_ids, anchors):
    """1-based rank of each insertion in payload display order (id-less view insertions)."""
    disp = [x for x in spec_order(valid_ids, None, anchors, set()) if x[0] == "s"]
    return {k: r + 1 for r, (_, k) in enumerate(disp)}


# ------------------------------------------------------------------ configuration spaces
def _cat(n):
    return S.cat("r", n, "mid")


ADDENDS = [[1], [1, 2], [2, 3]]


def anchors_for(n):
    ids = list(range(1, n + 1))
    return ["top", "bottom", "Top", None, STALE, MISS] + ids + [str(i) for i in ids]


def explicit_lists(n, maxlen):
    alpha = list(range(1, n + 1)) + [STALE]
    out = [None]
    for L in range(0, maxlen + 1):
        out += [list(t) for t in itertools.product(alpha, repeat=L)]
    return out


def hidden_subsets(n):
    return [set(c) for k in range(n + 1) for c in itertools.combinations(range(n), k)]


SP = {}


def _space(name, gen, bounds, count_hint=None):
    SP[name] = (gen, bounds)


def _gen_main(n, max_ins, tier_exp_len):
    anchors = anchors_for(n)
    ins_lists = [()] + [(a,) for a in anchors]
    if max_ins >= 2:
        ins_lists += [(a, b) for a in anchors for b in anchors]

    def gen():
        for il in ins_lists:
            for ex in range(len(explicit_lists(n, tier_exp_len))):
                for h in range(2 ** n):
                    for perm in ((0, 1) if n == 3 else (0,)):
                        yield ("main", n, il, ex, tier_exp_len, h, perm)
    return gen


def spaces(tier):
    out = []
    q = tier == "quick"
    # main: n=3, <=2 insertions x all explicit lists (len<=n+1 thorough, <=3 quick) x hidden subsets
    for n, mi, el in ((3, 2, 3 if q else 4), (2, 2, 3), (1, 2, 2), (4, 1, 3 if q else 4)):
        out.append(Space("main_n%d" % n, [(1, _gen_main(n, mi, el))], 1,
                         {"valid_elements": n, "max_insertions": mi, "explicit_list_max_len": el,
                          "anchors": [repr(a) for a in anchors_for(n)]}))
    # three insertions, payload order
    def gen3():
        n = 3
        anchors = anchors_for(n)
        sub = anchors if not q else ["top", "bottom", None, STALE, 1, 2, "2", "3"]
        for il in itertools.product(sub, repeat=3):
            for h in (0, 2, 5):
                yield ("main", n, tuple(il), 0, 0, h, 0)
    out.append(Space("three_insertions", [(1, gen3)], 1, {"valid_elements": 3, "insertions": 3}))
    # where defined / id-less numbering / pruning / dimension (rows, columns, strand)
    def genw():
        n = 3
        anchors = anchors_for(n)
        for where in ("view", "transform", "view_and_transform_same", "view_and_transform_permuted",
                      "view_and_transform_drop0", "view_and_transform_drop1"):
            for idless in (False, True, "mixed"):
                if idless and "drop" in where:
                    continue      # which definition an id-less analysis insertion continues is undefined
                if idless == "mixed" and where not in ("view", "transform"):
                    continue
                for il in itertools.product(anchors, repeat=2):
                    for ex in (None, [3, 1]):
                        for perm in (0, 1):      # category ids ascending / not ascending in the payload
                            yield ("where", n, tuple(il), where, idless, ex, perm)
    out.append(Space("where_defined", [(1, genw)], 1, {"valid_elements": 3, "insertions": 2,
                                                       "where": ["view", "transform", "both same order", "both permuted"]}))
    def gend():
        n = 3
        anchors = ["top", "bottom", 2, "1", STALE]
        for dim in ("columns", "strand"):
            for il in [()] + [(a,) for a in anchors] + [(a, b) for a in anchors for b in anchors]:
                for ex in range(len(explicit_lists(n, 3))):
                    for h in (0, 1, 6):
                        yield ("dim", dim, n, il, ex, h)
    out.append(Space("columns_and_strand", [(1, gend)], 1, {"valid_elements": 3}))
    def genp():
        n = 3
        anchors = ["top", "bottom", 1, 2, "3"]
        for il in [()] + [(a,) for a in anchors] + [(a, b) for a in anchors for b in anchors]:
            for ex in (None, [3, 2, 1], [2, 2, 99]):
                for variant in range(4):       # which rows are empty
                    for prune in (False, True):
                        yield ("prune", n, il, ex, variant, prune)
    out.append(Space("pruned", [(1, genp)], 1, {"valid_elements": 3, "empty_row_variants": 4}))
    def genm():
        # MR with derived items, explicit orders over aliases
        for layout in range(len(MR_LAYOUTS)):
            aliases = [a for a, _ in MR_LAYOUTS[layout]["base"]]
            seqs = [None] + [list(t) for L in range(0, 4) for t in itertools.product(aliases + ["zz"], repeat=L)]
            for ex in range(len(seqs)):
                for h in range(8):
                    yield ("mr", layout, ex, h)
    def genu():
        # an insertion whose addends are all missing / stale is not displayed; the others keep anchors, names, numbering
        anchors = ["top", "bottom", 1, 2, "3", None, STALE]
        for m in (2, 3):
            for il in itertools.product(anchors if m == 2 else anchors[:5], repeat=m):
                for u in range(m):
                    for idless in (False, True):
                        for where in ("transform", "view"):
                            for dim in ("rows", "strand"):
                                yield ("unusable", tuple(il), u, idless, where, dim)
    out.append(Space("unusable_insertion", [(1, genu)], 1, {"valid_elements": 3, "insertions": [2, 3],
                                                            "unusable_addends": "[missing id, stale id]"}))
    out.append(Space("mr_derived", [(1, genm)], 1, {"layouts": len(MR_LAYOUTS)}))
    return out


# MR layouts: base items (alias) and derived items with anchors, in payload position
MR_LAYOUTS = [
    {"base": [("m_1", 1), ("m_2", 2), ("m_3", 3)],
     "derived": [{"pos": 0, "alias": "d_top", "name": "d_top", "members": ["m_1", "m_2"], "anchor": "top"}]},
    {"base": [("m_1", 1), ("m_2", 2), ("m_3", 3)],
     "derived": [{"pos": 1, "alias": "d_b2", "name": "d_b2", "members": ["m_1", "m_2"],
                  "anchor": {"position": "before", "alias": "m_2"}},
                 {"pos": 4, "alias": "d_a3", "name": "d_a3", "members": ["m_2", "m_3"],
                  "anchor": {"position": "after", "alias": "m_3"}}]},
    {"base": [("m_1", 1), ("m_2", 2), ("m_3", 3)],
     "derived": [{"pos": 2, "alias": "d_a2", "name": "d_a2", "members": ["m_1", "m_3"],
                  "anchor": {"position": "after", "alias": "m_2"}},
                 {"pos": 3, "alias": "d_a2b", "name": "d_a2b", "members": ["m_1", "m_2"],
                  "anchor": {"position": "after", "alias": "m_2"}},
                 {"pos": 5, "alias": "d_bot", "name": "d_bot", "members": ["m_3"], "anchor": "bottom"}]},
    # anchors that no longer exist send the item to the bottom, in payload order with the others there
    {"base": [("m_1", 1), ("m_2", 2), ("m_3", 3)],
     "derived": [{"pos": 1, "alias": "d_sa", "name": "d_sa", "members": ["m_1", "m_2"],
                  "anchor": {"position": "after", "alias": "gone"}},
                 {"pos": 3, "alias": "d_bot", "name": "d_bot", "members": ["m_3"], "anchor": "bottom"},
                 {"pos": 5, "alias": "d_sb", "name": "d_sb", "members": ["m_2", "m_3"],
                  "anchor": {"position": "before", "alias": "gone"}}]},
    {"base": [("m_1", 1), ("m_2", 2), ("m_3", 3)],
     "derived": [{"pos": 0, "alias": "d_sb", "name": "d_sb", "members": ["m_1", "m_2"],
                  "anchor": {"position": "before", "alias": "d_none"}},      # anchored to a DERIVED item: stale
                 {"pos": 2, "alias": "d_none", "name": "d_none", "members": ["m_3"], "anchor": None},
                 {"pos": 3, "alias": "d_top", "name": "d_top", "members": ["m_2", "m_3"], "anchor": "top"}]},
]

SCHEMAS = {}


def detail(space, state):
    return {"space": space, "state": state, "meaning": _describe(state)}


def _describe(state):
    k = state[0]
    if k == "main":
        _, n, il, ex, el, h, perm = state
        return {"valid_ids": [3, 1, 2] if perm else list(range(1, n + 1)), "insertion_anchors": list(il),
                "explicit_element_ids": explicit_lists(n, el)[ex] if el else None,
                "hidden_idxs": [i for i in range(n) if h >> i & 1]}
    return {}


def _insertions(anchors, idless=False):
    out = []
    for k, a in enumerate(anchors):
        no_id = idless is True or (idless == "mixed" and k > 0)      # "mixed": the first carries an id, the rest do not
        d = subtotal("s%d" % k, ADDENDS[k % 3], anchor=a, sid=None if no_id else 10 + k)
        d["alias"] = "al_s%d" % k
        out.append(d)
    return out


def _run_cat(n, anchors, explicit, hidden, where="transform", idless=False, dim="rows", data_variant=0,
             prune=False, t_anchor_perm=None, id_order=None):
    """Build cube, return (partition, expected spec list, expected ids of subtotals)."""
    ids = list(range(1, n + 1)) if id_order is None else list(id_order)
    ins = _insertions(anchors, idless)
    view_ins = None
    t_ins = None
    if where == "view":
        view_ins = ins
    elif where == "transform":
        t_ins = ins
    elif where == "view_and_transform_same":
        view_ins, t_ins = ins, [dict(i) for i in ins]
    elif where == "view_and_transform_permuted":
        view_ins, t_ins = ins, [dict(i) for i in reversed(ins)]
    elif where.startswith("view_and_transform_drop"):
        # the analysis keeps a subset of the variable's insertions
        d = int(where[-1])
        view_ins, t_ins = ins, [dict(i) for k, i in enumerate(ins) if k != d]
    R = S.cat("r", n, "mid", ids=ids)
    R = CatVar(R.alias, R.cats, view_insertions=view_ins)
    C = S.cat("c", 2, "last")
    dt = {}
    if t_ins is not None:
        dt["insertions"] = t_ins
    if explicit is not None:
        dt["order"] = {"type": "explicit", "element_ids": list(explicit)}
    if hidden:
        dt["elements"] = {str(ids[i]): {"hide": True} for i in sorted(hidden)}
    if prune:
        dt["prune"] = True
    if dim == "rows":
        sch = Schema("c07", [R, C], [("cat", 0), ("cat", 1)])
        empties = [set(), {1}, {0, 2}, {0, 1, 2}][data_variant] if n == 3 else set()
        data = [((i, 1), 1, None) for k, i in enumerate(ids) if k not in empties]
        tr = {"rows_dimension": dt}
    elif dim == "columns":
        sch = Schema("c07", [C, R], [("cat", 0), ("cat", 1)])
        data = [((1, i), 1, None) for i in ids]
        tr = {"columns_dimension": dt}
    else:
        sch = Schema("c07", [R], [("cat", 0)])
        data = [((i,), 1, None) for i in ids]
        tr = {"rows_dimension": dt}
        empties = set()
    cube = Cube(tabulate(sch, data), transforms=tr)
    part = cube.partitions[0]
    # effective insertion list (definition order) and where it comes from
    eff = t_ins if t_ins is not None else view_ins
    eff_anchors = [i["anchor"] for i in eff] if eff else []
    hid = set(hidden)
    if prune and dim == "rows":
        hid |= [set(), {1}, {0, 2}, {0, 1, 2}][data_variant] if n == 3 else set()
    exp = spec_order(ids, explicit, eff_anchors, hid)
    # payload_order lists the VARIABLE's insertions (those the analysis still references) in the variable's
    # definition order when the variable defines any, else the analysis insertions
    if view_ins is not None and t_ins is not None and not idless:
        keep = {i["id"] for i in t_ins}
        plist = [i for i in view_ins if i["id"] in keep]
    else:
        plist = eff or []
    part_payload_spec = (spec_order(ids, None, [i["anchor"] for i in plist], hid),
                         [i.get("id") for i in plist])
    # subtotals are pruned only when every opposing vector is empty: not the case here
    if idless:
        if t_ins is not None:
            sub_ids = {k: k + 1 for k in range(len(eff))}
        else:
            sub_ids = payload_rank_ids(ids, eff_anchors)
        # an insertion that carries its own id keeps it; the id-less ones are numbered among ALL insertions
        sub_ids = {k: (eff[k]["id"] if eff[k].get("id") is not None else v) for k, v in sub_ids.items()}
    else:
        sub_ids = {k: eff[k]["id"] for k in range(len(eff or []))}
    PAYLOAD_SPEC[id(part)] = (part, part_payload_spec, idless and view_ins is not None and t_ins is not None)
    return part, exp, sub_ids, eff, dim


PAYLOAD_SPEC = {}


def _compare(part, exp, sub_ids, eff, dim, V, tag=""):
    asserted = 0
    nsub = len(eff or [])
    signed = [e[1] if e[0] == "e" else e[1] - nsub for e in exp]
    bogus = [e[1] if e[0] == "e" else "ins_%s" % sub_ids[e[1]] for e in exp]
    if dim == "columns":
        obs_s = [int(i) for i in part.column_order()]
        obs_b = list(part.column_order(ORDER_FORMAT.BOGUS_IDS))
        labels = list(part.column_labels)
        aliases = list(part.column_aliases)
    else:
        obs_s = [int(i) for i in part.row_order()]
        obs_b = list(part.row_order(ORDER_FORMAT.BOGUS_IDS))
        labels = list(part.row_labels)
        aliases = list(part.row_aliases)
    obs_b = [int(x) if not str(x).startswith("ins_") else str(x) for x in obs_b]
    asserted += 3
    if obs_s != signed:
        V.append(viol("order:signed" + tag, "display order %r, specification gives %r" % (obs_s, signed)))
    elif obs_b != bogus:
        # which numbering rule is involved
        V.append(viol("order:bogus_ids" + tag, "BOGUS_IDS rendering %r does not name the sequence %r "
                      "(signed %r)" % (obs_b, bogus, obs_s)))
    if len(labels) != len(obs_s):
        V.append(viol("order:labels_extent" + tag, "labels %r vs order %r" % (labels, obs_s)))
    elif obs_s == signed and eff:
        # the label and alias shown at a subtotal's position are those of THAT insertion (effective list)
        asserted += 1
        for pos, e in enumerate(exp):
            if e[0] == "s":
                want = (eff[e[1]]["name"], eff[e[1]].get("alias", ""))
                got = (labels[pos], aliases[pos] if pos < len(aliases) else None)
                if got != want:
                    V.append(viol("naming:subtotal" + tag, "position %d shows label/alias %r, the insertion placed there "
                                  "is %r" % (pos, got, want)))
                    break
    # payload_order: the same vectors in PAYLOAD order (an explicit order plays no part), subtotals at their
    # anchors and named by insertion id, hidden and pruned elements left out
    _p, pspec, ambiguous = PAYLOAD_SPEC.pop(id(part), (None, None, True))
    if pspec is not None and dim != "columns" and not ambiguous and hasattr(part, "payload_order"):
        asserted += 1
        pord, pids = pspec
        pids = [sub_ids[k] if i is None else i for k, i in enumerate(pids)]
        want = [e[1] if e[0] == "e" else "ins_%s" % pids[e[1]] for e in pord]
        got = [int(x) if not str(x).startswith("ins_") else str(x) for x in part.payload_order]
        if got != want:
            V.append(viol("payload_order" + tag, "payload_order %r, payload-order specification gives %r" % (got, want)))
    return asserted, signed


def check(space, state):
    V = []
    kind = state[0]
    asserted = 0
    if kind == "main":
        _, n, il, ex, el, h, perm = state
        explicit = explicit_lists(n, el)[ex] if el else None
        hidden = {i for i in range(n) if h >> i & 1}
        part, exp, sub_ids, eff, dim = _run_cat(n, il, explicit, hidden, id_order=[3, 1, 2] if perm else None)
        a, signed = _compare(part, exp, sub_ids, eff, dim, V)
    elif kind == "where":
        _, n, il, where, idless, ex, perm = state
        part, exp, sub_ids, eff, dim = _run_cat(n, il, ex, set(), where=where, idless=idless,
                                                id_order=[3, 1, 2] if perm else None)
        tag = ""
        if idless and where == "view":
            # cause predicate for the known numbering defect: a string-spelled element anchor
            if any(isinstance(a, str) and a.isdigit() for a in il):
                tag = ":idless_view_string_anchor"
            elif any(isinstance(a, str) and a != a.lower() for a in il):
                tag = ":idless_view_uppercase_anchor"
        if where == "view_and_transform_permuted":
            tag = ":view_and_transform_permuted"
        a, signed = _compare(part, exp, sub_ids, eff, dim, V, tag)
    elif kind == "dim":
        _, dim, n, il, ex, h = state
        explicit = explicit_lists(n, 3)[ex]
        hidden = {i for i in range(n) if h >> i & 1}
        part, exp, sub_ids, eff, dim = _run_cat(n, il, explicit, hidden, dim=dim)
        a, signed = _compare(part, exp, sub_ids, eff, dim, V, ":" + dim)
    elif kind == "prune":
        _, n, il, ex, variant, prune = state
        part, exp, sub_ids, eff, dim = _run_cat(n, il, ex, set(), data_variant=variant, prune=prune)
        a, signed = _compare(part, exp, sub_ids, eff, dim, V, ":prune")
    elif kind == "unusable":
        return _check_unusable(space, state)
    else:
        return _check_mr(state)
    asserted += a
    ntv = signed != sorted(x for x in signed if x >= 0)
    return Res(V, ntv, digest(space, repr(signed)), asserted)


def _check_unusable(space, state):
    _, il, u, idless, where, dim = state
    V = []
    n = 3
    ids = [1, 2, 3]
    ins = _insertions(il, idless)
    dead = subtotal("dead", [MISS, STALE], anchor=il[u], sid=None if idless else 10 + u)
    dead["alias"] = "al_dead"
    ins[u] = dead
    R = S.cat("r", n, "mid", ids=ids)
    if where == "view":
        R = CatVar(R.alias, R.cats, view_insertions=ins)
        tr = {}
    else:
        tr = {"rows_dimension": {"insertions": ins}}
    if dim == "rows":
        sch = Schema("c07u", [R, S.cat("c", 2, "last")], [("cat", 0), ("cat", 1)])
        data = [((i, 1), 1, None) for i in ids]
    else:
        sch = Schema("c07u", [R], [("cat", 0)])
        data = [((i,), 1, None) for i in ids]
    part = Cube(tabulate(sch, data), transforms=copy.deepcopy(tr)).partitions[0]
    usable = [i for k, i in enumerate(ins) if k != u]
    exp = spec_order(ids, None, [i["anchor"] for i in usable], set())
    signed = [e[1] if e[0] == "e" else e[1] - len(usable) for e in exp]
    obs_s = [int(i) for i in part.row_order()]
    tok = lambda seq: [int(x) if not str(x).startswith("ins_") else str(x) for x in seq]
    obs_b = tok(part.row_order(ORDER_FORMAT.BOGUS_IDS))
    pay = tok(part.payload_order)
    labels = list(part.row_labels)
    tag = ":unusable"
    if obs_s != signed:
        V.append(viol("order:signed" + tag, "display order %r, specification over the usable insertions gives %r" % (obs_s, signed)))
    else:
        want = [None if e[0] == "e" else usable[e[1]]["name"] for e in exp]
        got = [lab if w is not None else None for lab, w in zip(labels, want)]
        if got != want or len(labels) != len(want):
            V.append(viol("naming:subtotal" + tag, "labels %r, the insertions placed there are %r" % (labels, want)))
        if not idless:
            bogus = [e[1] if e[0] == "e" else "ins_%s" % usable[e[1]]["id"] for e in exp]
            if obs_b != bogus:
                V.append(viol("order:bogus_ids" + tag, "BOGUS_IDS rendering %r does not name %r" % (obs_b, bogus)))
        # no explicit order, nothing hidden: payload order IS the display order, so the two renderings coincide
        if pay != obs_b:
            V.append(viol("payload_order" + tag, "payload_order %r, BOGUS_IDS rendering of the same order %r" % (pay, obs_b)))
        names = [x for x in obs_b if isinstance(x, str)]
        if len(set(names)) != len(usable):
            V.append(viol("order:bogus_ids" + tag, "BOGUS_IDS rendering %r does not name %d distinct insertions" % (obs_b, len(usable))))
    return Res(V, signed != sorted(x for x in signed if x >= 0), digest(space, repr(signed), repr(obs_b)), 5)


def _check_mr(state):
    _, layout, exi, h = state
    lay = MR_LAYOUTS[layout]
    V = []
    aliases = [a for a, _ in lay["base"]]
    seqs = [None] + [list(t) for L in range(0, 4) for t in itertools.product(aliases + ["zz"], repeat=L)]
    explicit = seqs[exi]
    M = S.mr("m", 3, derived=lay["derived"])
    items = M.items
    all_aliases = [it["alias"] for it in items]
    hidden_alias = [aliases[i] for i in range(2) if h >> i & 1]
    if h >> 2 & 1:
        hidden_alias.append(lay["derived"][-1]["alias"])      # a derived item can be hidden like any other
    C = S.cat("c", 2, "last")
    sch = Schema("c07mr", [M, C], [("mr", 0), ("cat", 1)])
    dt = {}
    if explicit is not None:
        dt["order"] = {"type": "explicit", "element_ids": list(explicit)}
    if hidden_alias:
        dt["elements"] = {a: {"hide": True} for a in hidden_alias}
    data = [(((1, 1, 1), 1), 1, None)]
    part = Cube(tabulate(sch, data), transforms={"rows_dimension": dt}).partitions[0]
    # ---- specification
    if explicit is None:
        order = list(range(len(items)))           # payload order, derived where the server put them
    else:
        base = []
        for a in explicit:
            if a in aliases and a not in base:
                base.append(a)
        base += [a for a in aliases if a not in base]
        tops, bottoms, before, after = [], [], {}, {}
        for idx, it in enumerate(items):
            if not it.get("derived"):
                continue
            an = it.get("anchor")
            if an == "top":
                tops.append(idx)
            elif an == "bottom" or an is None:
                bottoms.append(idx)
            elif isinstance(an, dict) and an.get("alias") in aliases:
                (before if an.get("position") == "before" else after).setdefault(an["alias"], []).append(idx)
            else:
                bottoms.append(idx)
        order = list(tops)
        for a in base:
            order += before.get(a, [])
            order.append(all_aliases.index(a))
            order += after.get(a, [])
        order += bottoms
    hid = {all_aliases.index(a) for a in hidden_alias}
    exp = [i for i in order if i not in hid]
    obs = [int(i) for i in part.row_order()]
    if obs != exp:
        V.append(viol("order:mr_derived", "display order %r, specification gives %r" % (obs, exp)))
    exp_d = [p for p, i in enumerate(exp) if items[i].get("derived")]
    if list(part.derived_row_idxs) != exp_d:
        V.append(viol("derived_row_idxs", "derived_row_idxs %r, expected %r" % (list(part.derived_row_idxs), exp_d)))
    return Res(V, exp != sorted(exp), digest("mr", repr(obs)), 2)
