# encoding: utf-8
"""C12 - residual z-scores and p-values are adjusted standardized residuals."""

import math

import numpy as np

from mc import schemas as S
from mc.common2d import SCALES, Reg, display_map, scale_invariant, scaled_parts, std_pairings, subtotal, with_subtotals
from mc.compare import SKIP, arr_bytes, first_diff, num_eq
from mc.engine import Res, digest, viol
from mc.oracle import rank_rational, two_sided_normal_p

ID = "C12"
CHUNK = 150
RULE = ("states = (multiset of <=N respondents (x multiplicity 1|3 on the 2x2 schema), plain-"
        "subtotal config) incl. every degenerate table; non-trivial = rank >= 2 and at least "
        "one finite non-zero z-score; distinct = distinct z-score tensors")
ASSUMPTIONS = ["cells whose residual variance is exactly zero are unasserted (0/0 or x/0)",
               "rank decided exactly (rational arithmetic) on the weighted base counts",
               "weights {1,2}; {0.1,0.2,0.7} and {1,2^20} in dedicated spaces"]
TRUSTED = ["numpy", "math.erf for the normal cdf"]
NANF = float("nan")


def _build():
    reg = std_pairings(Reg(), sizes={"cat3_x_cat3": 3})
    A2 = S.cat("a", 2, "first")
    B2 = S.cat("b", 2, "last")
    # 2x2 with multiplicities: profile weight alphabet doubles as "m identical respondents"
    reg.add(S.schema2("cat2_x_cat2_mult", A2, B2), configs=[{}], quick=4, thorough=6)
    # weights that are not exact binary fractions: degenerate (proportional) tables must still be
    # recognised although the float sums are inexact
    reg.add(S.schema2("cat2_x_cat2_fracw", A2, B2, weighted=True), (0.1, 0.2, 0.7), configs=[{}], quick=4, thorough=5)
    # weights spanning six orders of magnitude: a subtotal (or an MR item) whose base is within 1e-6 of
    # the table base without being equal to it is NOT degenerate
    A3 = S.cat("a", 3, "mid", values=[1, 2, 3])
    rsub = [subtotal("r12", [1, 2], anchor="top", sid=1)]
    csub = [subtotal("c12", [1, 2], anchor="bottom", sid=1)]
    BIG = (1, 2 ** 20)
    reg.add(S.schema2("cat3_x_cat2_bigw", A3, B2, weighted=True), BIG, configs=[{"rows": rsub}], quick=3, thorough=4)
    reg.add(S.schema2("cat2_x_cat3_bigw", B2, A3, weighted=True), BIG, configs=[{"cols": csub}], quick=3, thorough=4)
    reg.add(S.schema2("mr_x_cat2_bigw", S.mr("m", 2), B2, weighted=True), BIG, configs=[{}], quick=2, thorough=3)
    # deeper on a reduced table: a subtotal column whose residuals are all exactly zero next to a body of rank 2
    B3n = S.cat("b", 3, "first")
    reg.add(S.schema2("cat2_x_cat3_sub_unw", A2, B3n), configs=[{"cols": [subtotal("c23", [2, 3], anchor="top", sid=1)]},
                                                                 {"cols": [subtotal("c13", [1, 3], anchor=2, sid=1)]}],
            quick=4, thorough=6)
    reg.mult = {"cat2_x_cat2_mult": (1, 3)}
    P = reg.profiles["cat2_x_cat2_mult"]
    reg.profiles["cat2_x_cat2_mult"] = [(p, m) for p in P for m in (1, 3)]
    return reg


REG = _build()
SCHEMAS = REG.schemas
_orig_dataset = REG.dataset


def _dataset(space, state):
    if space == "cat2_x_cat2_mult":
        out = []
        for i in state[0]:
            p, m = REG.profiles[space][i]
            out.extend([p] * m)
        return out
    return _orig_dataset(space, state)


REG.dataset = _dataset


def spaces(tier):
    return REG.spaces(tier)


def detail(space, state):
    return REG.detail(space, state)


def zscore(c, rb, cb, tb):
    """(z, asserted?)"""
    if tb == 0:
        return NANF, False
    var = rb * cb * (tb - rb) * (tb - cb)
    if var == 0:
        return NANF, False
    e = rb * cb / tb
    return (c - e) / math.sqrt(e * (1 - rb / tb) * (1 - cb / tb)), True


def check(space, state):
    sch, data, cfg, cube, oracles = REG.build(space, state)
    V = []
    asserted = 0
    outs = []
    nontrivial = False
    scaled = {e: scaled_parts(sch, data, cfg, e) for e in SCALES} if (sch.weighted and data and "bigw" not in space) else {}
    for pidx, (part, (kind, _lbl, orc)) in enumerate(zip(cube.partitions, oracles)):
        if kind != "slice":
            continue
        for e, sp in scaled.items():
            asserted += scale_invariant(V, ["zscores"], part, sp[pidx], e, power=0.5)
        o = with_subtotals(orc, cfg)
        a = o.all(True)
        ro = display_map(part.row_order(), o.n_base_rows, len(o.row_specs))
        co = display_map(part.column_order(), o.n_base_cols, len(o.col_specs))
        base_counts = [row[:o.n_base_cols] for row in a["count"][:o.n_base_rows]]
        rank = rank_rational(base_counts)
        z = np.asarray(part.zscores, dtype=float)
        p = np.asarray(part.pvals, dtype=float)
        asserted += 1
        if rank < 2:
            if z.size and not (np.all(np.isnan(z)) and np.all(np.isnan(p))):
                V.append(viol("degenerate_not_nan", "table of rank %d reports z-scores %r" % (rank, z.tolist())))
        else:
            expz, expp = [], []
            for I in ro:
                rz, rp = [], []
                for J in co:
                    zz, ok = zscore(a["count"][I][J], a["row_base"][I][J], a["col_base"][I][J], a["table_base"][I][J])
                    rz.append(zz if ok else SKIP)
                    rp.append(two_sided_normal_p(zz) if ok else SKIP)
                expz.append(rz)
                expp.append(rp)
            d = first_diff(z, expz)
            if d is not None:
                V.append(viol("zscores", "zscores cell %s: library %r, adjusted residual %r" % d, cell=list(d[0])))
            d = first_diff(p, expp, 1e-9, 1e-12)
            if d is not None:
                V.append(viol("pvals", "pvals cell %s: library %r, 2(1-Phi(|z|)) = %r" % d, cell=list(d[0])))
            asserted += 2
            fin = p[~np.isnan(p)]
            if fin.size and (fin.min() < 0 or fin.max() > 1):
                V.append(viol("pvals:range", "p-value outside [0,1]"))
            # 2x2: z^2 equals the Pearson chi-square from the respondent tabulation
            if (o.n_base_rows, o.n_base_cols) == (2, 2) and orc.rows.kind in ("CAT", "CAT_DATE") \
                    and orc.cols.kind in ("CAT", "CAT_DATE") and not o.row_specs and not o.col_specs:
                tb = a["table_base"][0][0]
                chi2 = 0.0
                okc = tb > 0
                for i in range(2):
                    for j in range(2):
                        e = a["row_base"][i][j] * a["col_base"][i][j] / tb if tb else 0
                        if e == 0:
                            okc = False
                        else:
                            chi2 += (a["count"][i][j] - e) ** 2 / e
                if okc:
                    asserted += 1
                    for i in range(2):
                        for j in range(2):
                            zz = z[ro.index(i), co.index(j)]
                            if not num_eq(zz * zz, chi2, 1e-9, 1e-9):
                                V.append(viol("chi_square", "2x2: z^2=%r but Pearson chi-square=%r" % (zz * zz, chi2)))
                                break
            nontrivial = nontrivial or bool(np.any(np.isfinite(z) & (z != 0)))
        asserted += 1
        d = first_diff(part.residual_test_stats, [p.tolist(), z.tolist()])
        if d is not None:
            V.append(viol("residual_test_stats", "residual_test_stats != stack(pvals, zscores) at %s" % (d[0],)))
        outs.append(arr_bytes(z))
    return Res(V, nontrivial, digest(space, state[1], *outs), asserted)
