# encoding: utf-8
"""C14 - scale mean, median, standard deviation and error from category numeric values."""

import itertools
import math
import statistics

import numpy as np

from cr.cube.cube import Cube

from mc import schemas as S
from mc.common2d import display_map, subtotal, transforms_for, with_subtotals
from mc.compare import SKIP, arr_bytes, first_diff, num_eq
from mc.engine import Res, Space, digest, multisets, viol
from mc.model import CatVar, Schema, tabulate
from mc.partition import partition_oracles

ID = "C14"
RULE = ("states = (multiset of <=N respondents, assignment of numeric values from {none,-1,0,1,2.5} "
        "to the 3 valued-dimension categories (all 125, plus five with values that are not binary fractions), subtotal config); non-trivial = at least "
        "two respondents with different numeric values in one vector; distinct = distinct "
        "(assignment, scale statistics)")
ASSUMPTIONS = ["median asserted for integer weights only (expanded-respondent median)",
               "*_scale_mean_margin / *_scale_median_margin = statistic over all respondents of "
               "the table valid on both dimensions"]
TRUSTED = ["numpy", "python statistics.median"]
NANF = float("nan")
VALUES = (None, -1, 0, 1, 2.5)
ASSIGN = list(itertools.product(VALUES, repeat=3))
# values that are not exact binary fractions (round-off in the second moment must not surface as a negative
# variance / NaN deviation when all valued respondents share one value)
ASSIGN += [(0.1, 0.1, 0.1), (0.1, 1.1, 2.3), (2.3, None, 0.1), (1.1, 1.1, None), (0.7, 0.1, 0.2)]

V3 = S.cat("v", 3, "mid")        # the valued dimension (values substituted per state)
G2 = S.cat("g", 2, "first")
M2 = S.mr("m", 2)
rs = [subtotal("g12", [1, 2], anchor="top", sid=1)]
vs = [subtotal("v13", [1, 3], anchor=2, sid=1)]

BASES = {
    # name: (vars, dims, valued var idx, weights, configs, quickN, thoroughN)
    "rows_stats_cat_x_val": ([G2, V3], [("cat", 0), ("cat", 1)], 1, (1,), [{}, {"rows": rs, "cols": vs}], 3, 4),
    "cols_stats_val_x_cat": ([V3, G2], [("cat", 0), ("cat", 1)], 0, (1,), [{}, {"cols": rs, "rows": vs}], 3, 4),
    "rows_stats_weighted": ([G2, V3], [("cat", 0), ("cat", 1)], 1, (1, 2), [{}], 2, 3),
    "cols_stats_val_x_mr": ([V3, M2], [("cat", 0), ("mr", 1)], 0, (1,), [{}], 2, 2),
    "rows_stats_mr_x_val": ([M2, V3], [("mr", 0), ("cat", 1)], 1, (1,), [{}], 2, 2),
    "strand_val": ([V3], [("cat", 0)], 0, (1, 2), [{}, {"rows": vs}], 3, 5),
    # weights 7 and 9 with the fractional value assignments only: counts at which a second moment computed by
    # the expanded square cancels to a negative residue
    # weights 100001 and 99999: a cumulative share of 0.500005 is NOT an exact half
    "rows_stats_nearhalf": ([G2, V3], [("cat", 0), ("cat", 1)], 1, (100001, 99999), [{}], 2, 3),
    "cols_stats_nearhalf": ([V3, G2], [("cat", 0), ("cat", 1)], 0, (100001, 99999), [{}], 2, 3),
    "rows_stats_fracvals_w7_9": ([G2, V3], [("cat", 0), ("cat", 1)], 1, (7, 9), [{}], 2, 3),
    "cols_stats_fracvals_w7_9": ([V3, G2], [("cat", 0), ("cat", 1)], 0, (7, 9), [{}], 2, 3),
}
N_EXACT = len(list(itertools.product(VALUES, repeat=3)))
PROFILES = {}
SCHEMAS = {}
for _n, (_vars, _dims, _vi, _w, _cfgs, _q, _t) in BASES.items():
    _s = Schema(_n, _vars, _dims, weighted=len(_w) > 1)
    SCHEMAS[_n] = _s
    PROFILES[_n] = _s.profiles(_w)


def spaces(tier):
    out = []
    for name in sorted(BASES):
        vars_, dims, vi, w, cfgs, q, t = BASES[name]
        n = q if tier == "quick" else t
        npf = len(PROFILES[name])

        def level(k, npf=npf, ncf=len(cfgs), name=name):
            def gen():
                for ms in multisets(npf, k):
                    for a in (range(N_EXACT, len(ASSIGN)) if "fracvals" in name else
                              range(0, N_EXACT, 4) if "nearhalf" in name else range(len(ASSIGN))):
                        for c in range(ncf):
                            yield (ms, a, c)
            return gen
        out.append(Space(name, [(k, level(k)) for k in range(0, n + 1)], npf,
                         {"schema": name, "profiles": npf, "value_assignments": len(ASSIGN),
                          "configs": len(cfgs), "max_respondents": n}))
    return out


def _schema(space, assign):
    vars_, dims, vi, w, cfgs, q, t = BASES[space]
    v = vars_[vi]
    cats = []
    k = 0
    for c in v.cats:
        c = dict(c)
        if not c.get("missing"):
            c["numeric_value"] = assign[k]
            k += 1
        cats.append(c)
    vv = CatVar(v.alias, cats)
    nv = list(vars_)
    nv[vi] = vv
    return Schema(space, nv, dims, weighted=len(w) > 1)


def _unpack(space, state):
    assign = ASSIGN[state[1]]
    sch = _schema(space, assign)
    data = [PROFILES[space][i] for i in state[0]]
    cfg = BASES[space][4][state[2]]
    return sch, data, cfg, assign


def detail(space, state):
    sch, data, cfg, assign = _unpack(space, state)
    return {"schema": space, "dims": sch.dims, "numeric_values_of_valued_dim": assign,
            "transforms": transforms_for(cfg),
            "respondents": [{"answers": r[0], "weight": r[1]} for r in data]}


def stats_of(pairs, margin, int_weights):
    """(mean, sd, median, se) of weighted (value, weight) pairs; `margin` = weighted margin"""
    tw = sum(w for _, w in pairs)
    if tw == 0:
        return NANF, NANF, NANF, NANF
    mean = sum(v * w for v, w in pairs) / tw
    var = sum(w * (v - mean) ** 2 for v, w in pairs) / tw
    sd = math.sqrt(var)
    if int_weights:
        expanded = []
        for v, w in pairs:
            expanded.extend([v] * int(w))
        med = statistics.median(expanded)
    else:
        med = SKIP
    se = sd / math.sqrt(margin) if margin and margin > 0 else NANF
    return mean, sd, med, se


def check(space, state):
    sch, data, cfg, assign = _unpack(space, state)
    cube = Cube(tabulate(sch, data), transforms=transforms_for(cfg))
    part = cube.partitions[0]
    kind, _lbl, orc = partition_oracles(sch, data)[0]
    V = []
    asserted = 0
    nontrivial = False
    any_value = any(a is not None for a in assign)
    int_w = all(float(r[1]).is_integer() for r in data)
    if sch.weighted and data and kind != "strand":
        from mc.common2d import SCALES, scale_invariant, scaled_parts
        for e in SCALES:
            sp = scaled_parts(sch, data, cfg, e)[0]
            for nm in ("rows_scale_mean", "columns_scale_mean", "rows_scale_mean_stddev", "columns_scale_mean_stddev"):
                if getattr(part, nm) is not None and getattr(sp, nm) is not None:
                    asserted += scale_invariant(V, [nm], part, sp, e)

    expd = {}

    def cmp(name, obs, exp):
        nonlocal asserted
        asserted += 1
        if exp is not None and obs is not None and hasattr(type(part), name) and np.ndim(exp) >= 1:
            expd[name] = exp
        if exp is None or obs is None:
            if not (exp is None and obs is None):
                V.append(viol(name + ":none", "%s: library %r, expected %r" % (name, obs, exp), output=name))
            return
        d = first_diff(obs, exp)
        if d is not None:
            V.append(viol(name, "%s at %s: library %r, respondents' numeric values give %r" % (name, d[0], d[1], d[2]),
                          output=name))

    if kind == "strand":
        rows = orc.rows
        pairs = []
        for r in orc.data:
            for k in range(len(rows)):
                if rows.member(r, k) and assign[k] is not None:
                    pairs.append((assign[k], r[1]))
        tw = sum(w for _, w in pairs)
        if not any_value or tw == 0:
            # None when no category has a value / no numeric-valued respondents
            cmp("strand.scale_mean", part.scale_mean, None)
            cmp("strand.scale_std_dev", part.scale_std_dev, None)
            cmp("strand.scale_std_err", part.scale_std_err, None)
            cmp("strand.scale_median", part.scale_median, None)
        else:
            mean, sd, med, se = stats_of(pairs, tw, int_w)
            cmp("strand.scale_mean", part.scale_mean, mean)
            cmp("strand.scale_std_dev", part.scale_std_dev, sd)
            cmp("strand.scale_std_err", part.scale_std_err, se)
            if med is not SKIP:
                cmp("strand.scale_median", part.scale_median, med)
            nontrivial = len(set(v for v, _ in pairs)) > 1
        return Res(V, nontrivial, digest(space, state[1], state[2], repr(part.scale_mean), repr(part.scale_median)), asserted)

    o = with_subtotals(orc, cfg)
    ro = display_map(part.row_order(), o.n_base_rows, len(o.row_specs))
    co = display_map(part.column_order(), o.n_base_cols, len(o.col_specs))
    vi = BASES[space][2]
    valued_is_cols = (sch.dims[1][1] == vi)
    a = o.all(True)
    outs = []
    for orient in ("rows", "columns"):
        names = ["%s_scale_mean" % orient, "%s_scale_mean_stddev" % orient, "%s_scale_median" % orient,
                 "%s_scale_mean_stderr" % orient]
        # statistics of each row use the numeric values of the COLUMNS dimension and v.v.
        uses_valued = (orient == "rows") == valued_is_cols
        if not uses_valued or not any_value:
            for nm in names + ["%s_scale_mean_margin" % orient, "%s_scale_median_margin" % orient]:
                cmp(nm, getattr(part, nm), None)
            continue
        vec_idx = ro if orient == "rows" else co
        nvals = o.n_base_cols if orient == "rows" else o.n_base_rows
        opp_array = (o.cols.array if orient == "rows" else o.rows.array)
        res = []
        for I in vec_idx:
            pairs = []
            for k in range(nvals):
                if assign[k] is None:
                    continue
                i, j = (I, k) if orient == "rows" else (k, I)
                for r in o.data:
                    mr, vr, mc, vc = o._preds(r, i, j)
                    if mr and mc:
                        pairs.append((assign[k], r[1]))
            if orient == "rows":
                margin = a["row_base"][I][0]
            else:
                margin = a["col_base"][0][I]
            res.append(stats_of(pairs, margin, int_w))
            if len(set(v for v, _ in pairs)) > 1:
                nontrivial = True
        cmp(names[0], getattr(part, names[0]), [x[0] for x in res])
        cmp(names[1], getattr(part, names[1]), [x[1] for x in res])
        if int_w:
            cmp(names[2], getattr(part, names[2]), [x[2] for x in res])
        cmp(names[3], getattr(part, names[3]), [x[3] for x in res])
        outs.append(arr_bytes(getattr(part, names[0]), getattr(part, names[2])))
        # overall margins: all respondents valid on both dimensions, valued category
        pairs = []
        for r in o.data:
            for k in range(nvals):
                if assign[k] is None:
                    continue
                # member of valued element k and eligible on the opposing dimension
                i, j = (0, k) if orient == "rows" else (k, 0)
                mr, vr, mc, vc = o._preds(r, i, j)
                if orient == "rows" and mc and vr:
                    pairs.append((assign[k], r[1]))
                if orient == "columns" and mr and vc:
                    pairs.append((assign[k], r[1]))
        tw = sum(w for _, w in pairs)
        mname, dname = "%s_scale_mean_margin" % orient, "%s_scale_median_margin" % orient
        if not (o.rows.array or o.cols.array):
            if tw > 0:
                mean, sd, med, se = stats_of(pairs, tw, int_w)
                cmp(mname, getattr(part, mname), mean)
                if int_w:
                    cmp(dname, getattr(part, dname), med)
            else:
                asserted += 1
                got = getattr(part, mname)
                if got is not None and not (isinstance(got, float) and got != got):
                    V.append(viol(mname + ":empty", "%s with no valued respondents: %r" % (mname, got)))
    # order-of-reads guard: the vector outputs read in REVERSE order on an untouched partition
    if expd and kind != "strand":
        from mc.common2d import reverse_read
        fresh = Cube(tabulate(sch, data), transforms=transforms_for(cfg)).partitions[0]
        asserted += reverse_read(V, fresh, expd)
    return Res(V, nontrivial, digest(space, state[1], state[2], *outs), asserted)
