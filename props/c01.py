# encoding: utf-8
"""C01 - cell values are faithful tabulations of the survey behind the response.

Alphabet : "one more respondent with answer profile p, weight w (and numeric answer x)"
States   : every multiset of respondents of size <= N over the profile alphabet
Oracle   : respondent loop (mc/oracle.py): count[i,j] = sum w [in(i) and in(j)]
"""

import statistics

import numpy as np

from cr.cube.cube import Cube

from mc import schemas as S
from mc.compare import arr_bytes, first_diff, to_list
from mc.engine import Res, Space, dataset_levels, digest, viol
from mc.model import Schema, tabulate
from mc.partition import partition_oracles

ID = "C01"
RULE = ("states = multisets of respondents (answer profile x weight x numeric answer) of size "
        "<= N per schema, enumerated completely; non-trivial = at least one respondent falls "
        "in a valid cell (a non-zero count); distinct = distinct (schema, observed count/"
        "measure tensors)")
ASSUMPTIONS = [
    "the tabulator (mc/model.py) reproduces the server's payload layout; bound to real "
    "fixtures by ./check --selftest",
    "weights in {1,2} (+0.5 thorough), numeric answers in {missing,1,3}; N bounded per schema",
]
TRUSTED = ["numpy", "python statistics module (median / stdev of member values)"]

SCHEMAS = {}
PROFILES = {}
NMAX = {"quick": {}, "thorough": {}}


def _reg(schema, weights=(1,), nums=(None,), quick=2, thorough=3):
    SCHEMAS[schema.name] = schema
    PROFILES[schema.name] = schema.profiles(weights, nums)
    NMAX["quick"][schema.name] = quick
    NMAX["thorough"][schema.name] = thorough


def _build():
    W = (1, 2)
    A = {p: S.cat("a", 2, p, values=[1, 2]) for p in ("first", "mid", "last")}
    B = {p: S.cat("b", 2, p) for p in ("first", "mid", "last")}
    B3 = S.cat("b", 3, "mid")
    D = S.cat("d", 2, "first", date=True)
    M = S.mr("m", 2)
    N_ = S.mr("n", 2)
    N3 = S.mr("n", 3)
    E = {t: S.enum("e", t, 2, missing_first=(t == "text")) for t in ("datetime", "text", "numeric")}
    C = S.ca("c", 2, 2, "mid")
    # --- 2-D categorical pairings, missing category at every payload position ---
    for pa in ("first", "mid", "last"):
        for pb in ("first", "mid", "last"):
            _reg(S.schema2("cat_%s_x_cat_%s" % (pa, pb), A[pa], B[pb], weighted=True), W, quick=3, thorough=4)
    _reg(S.schema2("cat_x_cat3_unw", A["last"], B3), quick=3, thorough=5)
    # weights within a few 1e-6 of 1: still a weighted response
    _reg(S.schema2("cat_x_cat_w_near1", A["mid"], B["first"], weighted=True), (1.000004, 0.999997), quick=3, thorough=4)
    # a categorical array whose categories carry an explicit "selected": false (a Yes/No grid is not a dichotomy)
    from mc.model import CAVar as _CAVar
    _c0 = S.ca("g", 2, 2, "last")
    _cg = _CAVar(_c0.alias, _c0.items, [
        {"id": 1, "name": "Yes", "missing": False, "numeric_value": 1, "selected": False},
        {"id": 0, "name": "No", "missing": False, "numeric_value": 0, "selected": False},
        {"id": -1, "name": "No Data", "missing": True, "numeric_value": None, "selected": False}])
    _reg(Schema("ca_selfalse_items_x_cats", [_cg], [("ca_items", 0), ("ca_cats", 0)]), quick=3, thorough=4)
    # categories re-ordered by `type.order` (the data follows that order, the category list does not)
    from mc.model import CatVar
    AO = CatVar("a", A["mid"].cats, type_order=[2, -1, 1])
    BO = CatVar("b", B3.cats, type_order=[3, 1, -1, 2])
    _reg(S.schema2("cat_ordered_x_cat_ordered", AO, BO, weighted=True), W, quick=3, thorough=4)
    _reg(S.schema2("cat_ordered_x_mr", AO, M), quick=2, thorough=3)
    _reg(Schema("cat_ordered_1d", [BO], [("cat", 0)]), quick=3, thorough=5)
    _reg(S.schema2("cat3_x_cat_w", B3, A["first"], weighted=True), W, quick=3, thorough=4)
    _reg(S.schema2("catdate_x_cat", D, B["mid"], weighted=True), W, quick=3, thorough=4)
    for t, e in E.items():
        _reg(S.schema2("cat_x_%s" % t, A["mid"], e, weighted=True), W, quick=3, thorough=4)
        _reg(S.schema2("%s_x_cat" % t, e, A["mid"]), quick=3, thorough=4)
    # --- MR pairings (square and non-square) ---
    _reg(S.schema2("cat_x_mr", A["first"], M, weighted=True), W, quick=2, thorough=3)
    _reg(S.schema2("mr_x_cat", M, A["first"], weighted=True), W, quick=2, thorough=3)
    _reg(S.schema2("cat3_x_mr_unw", B3, M), quick=3, thorough=4)
    _reg(S.schema2("mr_x_cat3_unw", M, B3), quick=3, thorough=4)
    _reg(S.schema2("mr_x_mr_sq", M, N_, weighted=True), W, quick=2, thorough=2)
    _reg(S.schema2("mr_x_mr_sq_unw", M, N_), quick=2, thorough=3)
    _reg(S.schema2("mr2_x_mr3_unw", M, N3), quick=2, thorough=2)
    _reg(S.schema2("mr3_x_mr2_unw", N3, M), quick=2, thorough=2)
    # --- categorical array, both orientations ---
    _reg(Schema("ca_items_x_cats", [C], [("ca_items", 0), ("ca_cats", 0)], weighted=True), W, quick=3, thorough=4)
    _reg(Schema("ca_cats_x_items", [C], [("ca_cats", 0), ("ca_items", 0)], weighted=True), W, quick=3, thorough=4)
    # --- 1-D ---
    _reg(Schema("cat_1d", [B3], [("cat", 0)], weighted=True), W, quick=4, thorough=5)
    _reg(Schema("mr_1d", [N3], [("mr", 0)], weighted=True), W, quick=2, thorough=3)
    _reg(Schema("datetime_1d", [E["datetime"]], [("enum", 0)]), quick=4, thorough=6)
    # --- 3-D: table dimension CAT (missing first / mid), MR, CA items ---
    T1 = S.cat("t", 2, "first")
    T2 = S.cat("t", 2, "mid")
    A1 = S.cat("a", 2, None)
    B1 = S.cat("b", 2, "last")
    _reg(Schema("catF_x_cat_x_cat", [T1, A1, B1], [("cat", 0), ("cat", 1), ("cat", 2)], weighted=True), W, quick=2, thorough=3)
    _reg(Schema("catM_x_cat_x_cat", [T2, A1, B1], [("cat", 0), ("cat", 1), ("cat", 2)]), quick=3, thorough=4)
    _reg(Schema("mr_x_cat_x_cat", [M, A1, B1], [("mr", 0), ("cat", 1), ("cat", 2)]), quick=2, thorough=3)
    _reg(Schema("catF_x_cat_x_mr", [T1, A1, M], [("cat", 0), ("cat", 1), ("mr", 2)]), quick=2, thorough=3)
    _reg(Schema("catF_x_mr_x_cat", [T1, M, A1], [("cat", 0), ("mr", 1), ("cat", 2)]), quick=2, thorough=3)
    _reg(Schema("mr_x_mr_x_cat", [M, N_, A1], [("mr", 0), ("mr", 1), ("cat", 2)]), quick=2, thorough=2)
    _reg(Schema("ca_x_cat_3d", [C, A1], [("ca_items", 0), ("ca_cats", 0), ("cat", 1)]), quick=2, thorough=3)
    # --- numeric measures carried by the response ---
    NUMS = (None, 1, 3)
    num = {"measures": ["mean", "sum", "stddev", "median"], "valid_counts": True}
    _reg(S.schema2("num_cat_x_cat", A["first"], B["last"], numeric=dict(num)), (1,), NUMS, quick=3, thorough=4)
    _reg(S.schema2("num_cat_x_cat_w", A["mid"], B["last"], weighted=True,
                   numeric={"measures": ["mean", "sum"], "valid_counts": True}), W, NUMS, quick=2, thorough=3)
    _reg(S.schema2("num_cat_x_mr", A["first"], M, numeric=dict(num)), (1,), NUMS, quick=2, thorough=2)
    _reg(S.schema2("num_sumna_cat_x_cat", A["mid"], B["mid"],
                   numeric={"measures": ["sum"], "valid_counts": True, "sum_empty": "na"}),
         (1,), NUMS, quick=3, thorough=4)
    _reg(S.schema2("num_mr_x_cat", M, A["first"], numeric=dict(num)), (1,), NUMS, quick=2, thorough=2)
    _reg(Schema("num_cat_1d", [B3], [("cat", 0)], numeric=dict(num)), (1,), NUMS, quick=3, thorough=5)
    _reg(Schema("num_mr_1d", [M], [("mr", 0)], numeric=dict(num)), (1,), NUMS, quick=3, thorough=4)
    _reg(Schema("num_0d", [], [], numeric={"measures": ["mean"], "valid_counts": False, "with_count": True}),
         (1,), NUMS, quick=4, thorough=6)
    _reg(Schema("num_0d_valid", [], [], numeric={"measures": ["mean"], "valid_counts": True}),
         (1,), NUMS, quick=4, thorough=6)
    # numeric measures under EVERY dimension-type pairing (each measure class dispatches on
    # the type pair separately from the counts)
    for t, e in list(E.items()) + [("catdate", D)]:
        _reg(S.schema2("num_%s_x_mr" % t, e, M, numeric=dict(num)), (1,), NUMS, quick=1, thorough=2)
        _reg(S.schema2("num_mr_x_%s" % t, M, e, numeric=dict(num)), (1,), NUMS, quick=1, thorough=2)
        _reg(S.schema2("num_cat_x_%s" % t, A["last"], e, numeric=dict(num)), (1,), NUMS, quick=2, thorough=3)
        _reg(S.schema2("num_%s_x_cat" % t, e, A["last"], numeric=dict(num)), (1,), NUMS, quick=2, thorough=3)
        _reg(Schema("num_%s_1d" % t, [e], [("enum" if e.kind == "ENUM" else "cat", 0)], numeric=dict(num)),
             (1,), NUMS, quick=3, thorough=4)
    _reg(S.schema2("num_mr_x_mr", M, N_, numeric=dict(num)), (1,), NUMS, quick=1, thorough=2)
    _reg(Schema("num_catF_x_cat_x_mr", [T1, A1, M], [("cat", 0), ("cat", 1), ("mr", 2)], numeric=dict(num)),
         (1,), NUMS, quick=1, thorough=2)
    _reg(Schema("num_mr_x_cat_x_cat", [M, A1, B1], [("mr", 0), ("cat", 1), ("cat", 2)], numeric=dict(num)),
         (1,), NUMS, quick=1, thorough=2)
    # old-style numeric responses without valid counts (count measure alongside)
    _reg(S.schema2("num_novalid_cat_x_cat", A["last"], B["first"],
                   numeric={"measures": ["mean"], "valid_counts": False, "with_count": True}),
         (1,), NUMS, quick=3, thorough=4)
    # --- numeric arrays (array axis last in the data, rows dimension synthesised) ---
    NA = S.numarr("na", 2)
    NAV = [None, (1, None), (None, 3), (1, 3), (3, 3)]
    _reg(Schema("numarr_x_cat", [A["first"]], [("cat", 0)],
                numeric={"measures": ["mean", "sum"], "numarr": NA}), (1,), NAV, quick=3, thorough=4)
    _reg(Schema("numarr_x_mr", [M], [("mr", 0)],
                numeric={"measures": ["mean"], "numarr": NA}), (1,), NAV, quick=2, thorough=3)
    # numeric array grouped by TWO variables (3-D: one partition per array item)
    _reg(Schema("numarr_x_cat_x_cat", [A["first"], B["mid"]], [("cat", 0), ("cat", 1)],
                numeric={"measures": ["mean", "sum"], "numarr": NA}), (1,), NAV, quick=2, thorough=3)
    # (a numeric array grouped by CAT and MR has four raw dimensions: the library defines no axis order for it)
    _reg(Schema("numarr_1d", [], [], numeric={"measures": ["mean", "sum"], "numarr": NA}),
         (1,), NAV, quick=4, thorough=6)


_build()


CUBE_LEVEL = {n: (len(sc.dims) >= 1 and all(r in ("cat", "enum") for r, _ in sc.dims)
                 and not (sc.numeric and sc.numeric.get("numarr"))) for n, sc in SCHEMAS.items()}


def spaces(tier):
    out = []
    for name in sorted(SCHEMAS):
        n = NMAX[tier][name]
        np_ = len(PROFILES[name])
        out.append(Space(name, dataset_levels(np_, n), np_,
                         {"schema": name, "profiles": np_, "max_respondents": n,
                          "dims": [r for r, _ in SCHEMAS[name].dims]}))
    return out


def dataset_of(space, state):
    P = PROFILES[space]
    return [P[i] for i in state]


def detail(space, state):
    sch = SCHEMAS[space]
    return {"schema": space, "dims": sch.dims, "weighted": sch.weighted,
            "numeric": {k: (v if k != "numarr" else bool(v)) for k, v in (sch.numeric or {}).items()},
            "respondents": [{"answers": r[0], "weight": r[1], "num": r[2]} for r in dataset_of(space, state)]}


def _numeric_expect(members, measure, weighted, j=None, empty_sum=0):
    """Value the response must carry for a cell whose members are given."""
    vals = []
    for r in members:
        x = r[2] if j is None else (r[2][j] if r[2] is not None else None)
        if x is not None:
            vals.append((x, r[1]))
    tw = sum(w for _, w in vals)
    if measure == "valid_unweighted":
        return len(vals)
    if measure == "valid_weighted":
        return tw
    if measure == "sum":
        return sum(v * w for v, w in vals) if vals else empty_sum
    if not vals or tw == 0:
        return float("nan")
    if measure == "mean":
        return sum(v * w for v, w in vals) / tw
    xs = [v for v, _ in vals]
    if measure == "median":
        return statistics.median(xs)
    if measure == "stddev":
        return statistics.stdev(xs) if len(xs) > 1 else float("nan")
    raise ValueError(measure)


def _labels(observed, axis):
    """(observed, expected) label lists; enum labels are formatted by the library from
    the element value, so only their number (missing element dropped) is asserted."""
    observed = list(observed)
    if axis.kind == "ENUM":
        return [len(observed)], [len(axis.labels)]
    return observed, axis.labels


def check(space, state):
    sch = SCHEMAS[space]
    data = dataset_of(space, state)
    resp = tabulate(sch, data)
    cube = Cube(resp)
    parts = cube.partitions
    oracles = partition_oracles(sch, data)
    V = []
    asserted = 0
    out_parts = []
    nontrivial = False

    def cmp(kind, name, obs, exp, pidx):
        nonlocal asserted
        asserted += 1
        d = first_diff(obs, exp)
        if d is not None:
            V.append(viol("%s:%s" % (kind, name),
                          "%s partition %d cell %s: library %r, respondents give %r"
                          % (name, pidx, d[0], d[1], d[2]),
                          output=name, partition=pidx, cell=list(d[0])))

    if len(parts) != len(oracles):
        V.append(viol("partition_count", "library yields %d partitions, model %d"
                      % (len(parts), len(oracles))))
        return Res(V, False, None, 1)

    numeric = sch.numeric
    numarr = numeric.get("numarr") if numeric else None
    has_valid = bool(numeric and numeric.get("valid_counts", True))
    es = float("nan") if (numeric and numeric.get("sum_empty") == "na") else 0
    for pidx, (part, (kind, tlabel, orc)) in enumerate(zip(parts, oracles)):
        if kind == "nub":
            # 0-D: mean of everybody with a valid numeric answer, unweighted count = N
            exp_mean = _numeric_expect(data, "mean", False)
            cmp("nub", "means", part.means, np.array(exp_mean), pidx)
            # the unweighted count is the valid count when the response carries one, else N
            cmp("nub", "unweighted_count", part.unweighted_count,
                _numeric_expect(data, "valid_unweighted", False) if has_valid else len(data), pidx)
            cmp("nub", "is_empty", part.is_empty,
                (_numeric_expect(data, "valid_unweighted", False) if has_valid else len(data)) == 0, pidx)
            cmp("cube", "unweighted_counts", cube.unweighted_counts,
                _numeric_expect(data, "valid_unweighted", False) if has_valid else len(data), pidx)
            out_parts.append(arr_bytes(np.array(part.means)))
            nontrivial = nontrivial or len(data) > 0
            continue
        if kind == "strand":
            rows = orc.rows
            if numeric and (has_valid or numarr):
                # counts are the valid counts the response carries
                def mem(k):
                    return [r for r in orc.data if rows.member(r, k)]
                jn = (lambda k: k) if numarr else (lambda k: None)
                exp_u = [_numeric_expect(mem(k) if not numarr else orc.data, "valid_unweighted", False, jn(k))
                         for k in range(len(rows))]
                exp_w = [_numeric_expect(mem(k) if not numarr else orc.data, "valid_weighted", True, jn(k))
                         for k in range(len(rows))]
            else:
                exp_u = orc.counts(False)
                exp_w = orc.counts(True)
            cmp("strand", "unweighted_counts", part.unweighted_counts, exp_u, pidx)
            cmp("strand", "counts", part.counts, exp_w, pidx)
            cmp("strand", "row_labels", *_labels(part.row_labels, rows), pidx)
            if numeric:
                for m in numeric["measures"]:
                    if sch.weighted and m in ("median", "stddev"):
                        continue
                    exp = []
                    for k in range(len(rows)):
                        if numarr:
                            exp.append(_numeric_expect(orc.data, m, sch.weighted, k, empty_sum=es))
                        else:
                            exp.append(_numeric_expect([r for r in orc.data if rows.member(r, k)], m,
                                                       sch.weighted, empty_sum=es))
                    prop = {"mean": "means", "sum": "sums", "stddev": "stddev", "median": "medians"}[m]
                    cmp("strand", prop, getattr(part, prop), exp, pidx)
            out_parts.append(arr_bytes(part.counts, part.unweighted_counts))
            nontrivial = nontrivial or any(x > 0 for x in exp_u)
            continue
        # ---- slice ----
        rows, cols = orc.rows, orc.cols
        nr, nc = len(rows), len(cols)
        fixed_item = getattr(orc, "num_item", None)

        def item_of(i):
            """array item whose numeric value a cell of row i reports"""
            if not numarr:
                return None
            return fixed_item if fixed_item is not None else i
        if numeric and (has_valid or numarr):
            exp_u = [[_numeric_expect(orc.members(i, j), "valid_unweighted", False, item_of(i))
                      for j in range(nc)] for i in range(nr)]
            exp_w = [[_numeric_expect(orc.members(i, j), "valid_weighted", True, item_of(i))
                      for j in range(nc)] for i in range(nr)]
        else:
            exp_u = orc.matrix("count", False)
            exp_w = orc.matrix("count", True)
        cmp("slice", "unweighted_counts", part.unweighted_counts, exp_u, pidx)
        cmp("slice", "counts", part.counts, exp_w, pidx)
        cmp("slice", "row_labels", *_labels(part.row_labels, rows), pidx)
        cmp("slice", "column_labels", *_labels(part.column_labels, cols), pidx)
        if rows.kind not in ("MR", "CA_SUBVAR", "NUMARR", "ENUM"):
            cmp("slice", "row_codes", list(part.row_codes), rows.ids, pidx)
        if cols.kind not in ("MR", "CA_SUBVAR", "NUMARR", "ENUM"):
            cmp("slice", "column_codes", list(part.column_codes), cols.ids, pidx)
        if tlabel is not None:
            asserted += 1
            tn = part.table_name
            if not (isinstance(tn, str) and tn.endswith(": %s" % tlabel)):
                V.append(viol("slice:table_name", "partition %d table_name %r, expected label %r"
                              % (pidx, tn, tlabel)))
        if numeric:
            for m in numeric["measures"]:
                if sch.weighted and m in ("median", "stddev"):
                    continue
                exp = [[_numeric_expect(orc.members(i, j), m, sch.weighted, item_of(i), empty_sum=es)
                        for j in range(nc)] for i in range(nr)]
                prop = {"mean": "means", "sum": "sums", "stddev": "stddev", "median": "medians"}[m]
                cmp("slice", prop, getattr(part, prop), exp, pidx)
        out_parts.append(arr_bytes(part.counts, part.unweighted_counts))
        nontrivial = nontrivial or any(x > 0 for row in exp_u for x in row)

    # ---- cube level (all dimensions categorical-like: the cube arrays are the stacked partitions)
    if CUBE_LEVEL.get(space) and not V:
        ps = [p_ for p_ in parts]
        stack_u = np.array([np.asarray(p_.unweighted_counts, dtype=float) for p_ in ps])
        stack_w = np.array([np.asarray(p_.counts, dtype=float) for p_ in ps])
        if len(ps) == 1:
            stack_u, stack_w = stack_u[0], stack_w[0]
        cmp("cube", "unweighted_counts", cube.unweighted_counts, stack_u.tolist(), 0)
        cmp("cube", "counts", cube.counts, stack_w.tolist(), 0)
        if numeric and "mean" in numeric["measures"]:
            stack_m = np.array([np.asarray(p_.means, dtype=float) for p_ in ps])
            cmp("cube", "means", cube.means, (stack_m[0] if len(ps) == 1 else stack_m).tolist(), 0)
    return Res(V, nontrivial, digest(space, *out_parts), asserted)
