# encoding: utf-8
"""C04 - subtotals behave as merged categories; differences as signed merges.

Spaces
  arith_*  : ONE insertion on one dimension; positive/negative range over ALL subsets of
             {ids} u {stale id, missing id}; data N<=2 (quick) — arithmetic, NaN rules
  pair_*   : two insertions per dimension and/or insertions on both dimensions from a
             reduced insertion alphabet; data N<=2..3 — intersections, commutation
  merge    : every plain subtotal is compared, output by output, with the library's own
             analysis of the data set in which the addends were merged into one category
  wave_*   : categorical-date dimensions, 1-1 and multi-term differences
"""

import itertools
import math

import numpy as np

from cr.cube.cube import Cube

from mc import schemas as S
from mc.common2d import (Reg, display_map, resolve_insertions, subtotal, transforms_for)
from mc.compare import SKIP, arr_bytes, first_diff, isnan, to_list
from mc.engine import Res, Space, digest, multisets, viol
from mc.model import Schema, tabulate
from mc.oracle import div, rank_rational
from mc.partition import partition_oracles

ID = "C04"
RULE = ("states = (multiset of <=N respondents, insertion list) ; insertion lists enumerate all "
        "addend/subtrahend subsets over ids+stale+missing for one insertion and a reduced "
        "alphabet for pairs / both dimensions; non-trivial = the state has a subtotal with a "
        "valid term whose vector has a non-zero count; distinct = distinct observed tensors")
ASSUMPTIONS = [
    "merge equivalence compares two runs of the library (original + recoded data); z-scores "
    "only where both tables have rank >= 2 and the cell's residual variance is non-zero",
    "an id listed in both positive and negative contributes +c-c = 0",
]
TRUSTED = ["numpy"]

NANF = float("nan")
STALE, MISS = 99, -1

# ------------------------------------------------------------------------------ schemas
R4 = S.cat("r", 3, "mid", values=[1, 2, 3])        # ids 1,2,3 ; missing -1 after id 1
C2 = S.cat("c", 2, "first")
C3 = S.cat("k", 3, "last", values=[2, 1, None])
M2 = S.mr("m", 2)
D3 = S.cat("d", 3, "first", date=True)
CA = S.ca("q", 2, 3, "mid")
NA = S.numarr("na", 2)

SCHEMAS = {
    "cat_x_cat": S.schema2("cat_x_cat", R4, C2, weighted=True),
    "cat_x_cat_T": S.schema2("cat_x_cat_T", C2, R4, weighted=True),
    "cat_x_cat_sq_T": S.schema2("cat_x_cat_sq_T", C2, R4, weighted=True, squared=True),
    "cat_x_cat_sq": S.schema2("cat_x_cat_sq", R4, C2, weighted=True, squared=True),
    "cat_x_mr": S.schema2("cat_x_mr", R4, M2),
    "mr_x_cat": S.schema2("mr_x_cat", M2, R4),
    "cat3_x_cat3": S.schema2("cat3_x_cat3", R4, C3, weighted=True),
    "ca_items_x_cats": Schema("ca_items_x_cats", [CA], [("ca_items", 0), ("ca_cats", 0)]),
    "ca_cats_x_items": Schema("ca_cats_x_items", [CA], [("ca_cats", 0), ("ca_items", 0)]),
    "cat_1d": Schema("cat_1d", [R4], [("cat", 0)], weighted=True),
    "date_x_cat": S.schema2("date_x_cat", D3, C2, weighted=True),
    "cat_x_date": S.schema2("cat_x_date", C2, D3, weighted=True),
    "date_x_mr": S.schema2("date_x_mr", D3, M2),
    "date_1d": Schema("date_1d", [D3], [("cat", 0)], weighted=True),
    "num_cat_x_cat": S.schema2("num_cat_x_cat", R4, C2, numeric={"measures": ["mean", "sum", "median", "stddev"],
                                                                   "valid_counts": True}),
    "numarr_x_cat": Schema("numarr_x_cat", [R4], [("cat", 0)], numeric={"measures": ["sum", "mean"], "numarr": NA}),
}
WEIGHTS = {"cat_x_cat_sq_T": (1, 3), "cat_x_cat_sq": (1, 3), "cat_x_cat": (1, 2), "cat_x_cat_T": (1, 2), "cat3_x_cat3": (1, 2), "cat_1d": (1, 2),
           "date_x_cat": (1, 2), "cat_x_date": (1, 2), "date_1d": (1, 2)}
NUMS = {"num_cat_x_cat": (None, 1, 3), "numarr_x_cat": (None, (1, None), (1, 3), (3, 3))}
PROFILES = {n: s.profiles(WEIGHTS.get(n, (1,)), NUMS.get(n, (None,))) for n, s in SCHEMAS.items()}

IDS = [1, 2, 3]
TERMS = IDS + [STALE, MISS]


def _subsets(xs):
    return [list(c) for k in range(len(xs) + 1) for c in itertools.combinations(xs, k)]


ALL_SPECS = [(p, n) for p in _subsets(TERMS) for n in _subsets(TERMS) if p or n]   # 1023
# reduced alphabet for pairs: plain, overlapping, stale, missing, 1-1, multi-term, offset-0
SMALL = [([1, 2], []), ([2, 3], []), ([1, STALE], []), ([3, MISS], []), ([2], [1]), ([1], [3]),
         ([2, 3], [1]), ([1], [2, 3]), ([1, 2], [2]), ([], [2]), ([STALE], [MISS, 3]), ([1, 2, 3], [])]
ANCHORS = ["top", 2, "bottom"]
# term lists that mention an id more than once: a term list denotes a SET of elements
REPEATS = [([1, 1, 2], []), ([2, 2], []), ([2], [1, 1]), ([3, 1, 3], [2, 2]), ([1, STALE, 1, STALE], []),
           ([MISS, 2, 2], [3]), ([1, 2], [3, 3, MISS, MISS])]


def _ins(spec, k=1, anchor="bottom"):
    return subtotal("s%d" % k, spec[0], spec[1], anchor=anchor, sid=k)


# space -> (schema name, dims that take insertions, config generator)
def _cfg_single(dim):
    return [{dim: [_ins(sp, 1, ANCHORS[i % 3])]} for i, sp in enumerate(ALL_SPECS)]


def _cfg_small(dim):
    return [{dim: [_ins(sp, 1, ANCHORS[i % 3])]} for i, sp in enumerate(SMALL)]


def _cfg_wave11(dim):
    return [{dim: [_ins(sp, 1, a)]} for sp, a in ((([2], [1]), "bottom"), (([1], [3]), "top"), (([3], [2]), 2))]


def _cfg_repeats(dim):
    return [{dim: [_ins(sp, 1, ANCHORS[i % 3])]} for i, sp in enumerate(REPEATS)]


def _cfg_pair(dim):
    return [{dim: [_ins(a, 1, "top"), _ins(b, 2, 2)]} for a in SMALL for b in SMALL]


def _cfg_nets(dim):
    """two or three plain subtotals on one dimension, one of them spanning every category: residuals and
    pairwise tests of the OTHER subtotals must still be those of the merged category"""
    nets = [([1, 2, 3], []), ([1, 2], []), ([2, 3], []), ([1, 3], [])]
    out = []
    for a in nets:
        for b in nets:
            if a != b:
                out.append({dim: [_ins(a, 1, "top"), _ins(b, 2, 2)]})
    out.append({dim: [_ins(nets[1], 1, "top"), _ins(nets[0], 2, "bottom"), _ins(nets[2], 3, 1)]})
    return out


def _cfg_both():
    return [{"rows": [_ins(a, 1, 1)], "cols": [_ins(b, 1, "top")]} for a in SMALL for b in SMALL]


def _cfg_styles(dim):
    """plain subtotals written old style (`args`), new style (`kwargs.positive`), and with BOTH present
    (kwargs wins); differences only exist in kwargs style"""
    out = []
    for i, sp in enumerate(SMALL):
        k = _ins(sp, 1, ANCHORS[i % 3])
        out.append({dim: [k]})
        if not sp[1] and sp[0]:
            a = subtotal("s1", sp[0], anchor=ANCHORS[i % 3], sid=1, style="args")
            out.append({dim: [a]})
            both = dict(k)
            both["args"] = [3]                     # ignored: kwargs.positive takes precedence
            out.append({dim: [both]})
    return out


SPACES = {
    # name: (schema, configs, quickN, thoroughN)
    "arith_rows_cat_x_cat": ("cat_x_cat", _cfg_single("rows"), 1, 3),
    "arith_cols_cat_x_cat": ("cat_x_cat_T", _cfg_single("cols"), 1, 3),
    "arith_rows_cat_x_mr": ("cat_x_mr", _cfg_single("rows"), 1, 2),
    "arith_cols_mr_x_cat": ("mr_x_cat", _cfg_single("cols"), 1, 2),
    "arith_strand": ("cat_1d", _cfg_single("rows"), 2, 4),
    "arith_cols_ca": ("ca_items_x_cats", _cfg_small("cols"), 2, 3),
    "arith_rows_ca": ("ca_cats_x_items", _cfg_small("rows"), 2, 3),
    "arith_num_rows": ("num_cat_x_cat", _cfg_small("rows"), 2, 3),
    "arith_numarr_cols": ("numarr_x_cat", _cfg_small("cols"), 2, 3),
    "styles_rows": ("cat_x_cat", _cfg_styles("rows"), 2, 3),
    "view_rows": ("cat_x_cat", _cfg_styles("rows"), 2, 3),          # same lists defined on the variable view
    "view_cols": ("cat_x_cat_T", _cfg_styles("cols"), 2, 3),
    "view_strand": ("cat_1d", _cfg_styles("rows"), 2, 4),
    "repeat_rows": ("cat_x_cat", _cfg_repeats("rows"), 2, 3),
    "repeat_cols": ("cat_x_cat_T", _cfg_repeats("cols"), 2, 3),
    "repeat_strand": ("cat_1d", _cfg_repeats("rows"), 2, 4),
    "repeat_wave_rows": ("date_x_cat", _cfg_repeats("rows"), 2, 3),
    "pair_rows_cat_x_cat": ("cat_x_cat", _cfg_pair("rows"), 1, 2),
    # squared-weight measure: the effective base of a merged column is (sum w)^2 / sum w^2 of the merged respondents
    "squared_cols": ("cat_x_cat_sq_T", _cfg_small("cols"), 2, 3),
    "squared_rows": ("cat_x_cat_sq", _cfg_small("rows"), 2, 2),
    "nets_rows": ("cat_x_cat", _cfg_nets("rows"), 2, 3),
    "nets_cols": ("cat_x_cat_T", _cfg_nets("cols"), 2, 3),
    "pair_strand": ("cat_1d", _cfg_pair("rows"), 2, 3),
    "both_cat3_x_cat3": ("cat3_x_cat3", _cfg_both(), 1, 2),
    "wave_rows": ("date_x_cat", _cfg_single("rows"), 1, 2),
    "wave_cols": ("cat_x_date", _cfg_single("cols"), 1, 2),
    "wave_rows_mr": ("date_x_mr", _cfg_small("rows"), 2, 2),
    "wave_strand": ("date_1d", _cfg_single("rows"), 2, 3),
    # deeper data on the reduced insertion alphabet
    "small_rows_cat_x_cat": ("cat_x_cat", _cfg_small("rows"), 2, 4),
    "small_cols_cat_x_cat": ("cat_x_cat_T", _cfg_small("cols"), 2, 4),
    "small_wave_rows": ("date_x_cat", _cfg_small("rows"), 2, 3),
    "small_wave_cols": ("cat_x_date", _cfg_small("cols"), 2, 3),
    # one-minus-one wave differences need three respondents before weighted and unweighted percentages part: two with
    # different weights in the addend wave (different opposing categories) and one in the subtrahend wave
    "wave11_rows": ("date_x_cat", _cfg_wave11("rows"), 3, 4),
    "wave11_cols": ("cat_x_date", _cfg_wave11("cols"), 3, 4),
}


def spaces(tier):
    out = []
    for name in sorted(SPACES):
        sname, cfgs, qn, tn = SPACES[name]
        n = qn if tier == "quick" else tn
        npf = len(PROFILES[sname])

        def level(k, npf=npf, ncf=len(cfgs)):
            def gen():
                for ms in multisets(npf, k):
                    for c in range(ncf):
                        yield (ms, c)
            return gen
        out.append(Space(name, [(k, level(k)) for k in range(0, n + 1)], npf,
                         {"schema": sname, "profiles": npf, "insertion_configs": len(cfgs),
                          "max_respondents": n}))
    return out


_VIEW_CACHE = {}


def _unpack(space, state):
    sname, cfgs, _, _ = SPACES[space]
    sch = SCHEMAS[sname]
    data = [PROFILES[sname][i] for i in state[0]]
    cfg = cfgs[state[1]]
    if space.startswith("view_"):
        key = (space, state[1])
        if key not in _VIEW_CACHE:
            from mc.model import CatVar
            which = "rows" if cfg.get("rows") else "cols"
            vi = sch.dims[0 if which == "rows" else 1][1]
            vars_ = list(sch.vars)
            v = vars_[vi]
            vars_[vi] = CatVar(v.alias, v.cats, view_insertions=[dict(i) for i in cfg[which]])
            _VIEW_CACHE[key] = Schema(sch.name, vars_, sch.dims, weighted=sch.weighted, numeric=sch.numeric)
        sch = _VIEW_CACHE[key]
    return sch, data, cfg


def detail(space, state):
    sch, data, cfg = _unpack(space, state)
    return {"schema": sch.name, "dims": sch.dims, "transforms": transforms_for(cfg),
            "respondents": [{"answers": r[0], "weight": r[1], "num": r[2]} for r in data]}


# --------------------------------------------------------------------------- helpers


def _signed(vec_or_mat, add, sub, axis):
    """sum of addend vectors minus sum of subtrahend vectors of a base matrix/vector."""
    a = np.asarray(vec_or_mat, dtype=float)
    if a.ndim == 1:
        return a[add].sum() - a[sub].sum()
    if axis == 0:
        return a[add, :].sum(axis=0) - a[sub, :].sum(axis=0)
    return a[:, add].sum(axis=1) - a[:, sub].sum(axis=1)


def _positions(order):
    """display positions of base elements {idx: pos} and of subtotals {k: pos}."""
    order = [int(i) for i in order]
    nneg = -min([0] + order)
    base = {i: p for p, i in enumerate(order) if i >= 0}
    subs = {}
    return order, base


def _sub_pos(order, k, n_sub):
    """display position of subtotal k (0-based, definition order) or None."""
    target = k - n_sub
    for p, i in enumerate(order):
        if int(i) == target:
            return p
    return None


class _V:
    def __init__(self):
        self.v = []
        self.asserted = 0

    def eq(self, kind, name, obs, exp, msg=""):
        self.asserted += 1
        d = first_diff(obs, exp)
        if d is not None:
            self.v.append(viol(kind, "%s %s at %s: library %r, expected %r" % (name, msg, d[0], d[1], d[2]),
                               output=name))
            return False
        return True

    def allnan(self, kind, name, obs, msg=""):
        self.asserted += 1
        arr = np.asarray(to_list(obs), dtype=float)
        if arr.size and not np.all(np.isnan(arr)):
            self.v.append(viol(kind, "%s %s must be NaN, library gives %r" % (name, msg, arr.tolist()),
                               output=name))
            return False
        return True


ADDITIVE_2D = ["counts", "unweighted_counts"]
NAN_FOR_SUBTOTALS = ["means", "medians", "stddev", "column_index"]
M2D = ["counts", "unweighted_counts", "row_weighted_bases", "row_unweighted_bases",
       "column_weighted_bases", "column_unweighted_bases", "table_weighted_bases",
       "table_unweighted_bases", "row_proportions", "column_proportions", "table_proportions",
       "row_percentages", "column_percentages", "table_percentages",
       "row_proportion_variances", "column_proportion_variances", "table_proportion_variances",
       "row_std_dev", "column_std_dev", "table_std_dev", "row_std_err", "column_std_err",
       "table_std_err", "row_proportions_moe", "column_proportions_moe", "table_proportions_moe",
       "population_counts", "population_counts_moe"]
ROW_MARGINALS = ["rows_margin", "rows_base", "rows_margin_proportion", "rows_scale_mean",
                 "rows_scale_median", "rows_scale_mean_stddev", "rows_scale_mean_stderr"]
COL_MARGINALS = ["columns_margin", "columns_base", "columns_margin_proportion", "columns_scale_mean",
                 "columns_scale_median", "columns_scale_mean_stddev", "columns_scale_mean_stderr"]
STRAND_1D = ["counts", "unweighted_counts", "unweighted_bases", "weighted_bases", "table_proportions",
             "table_percentages", "table_proportion_stddevs", "table_proportion_stderrs",
             "table_proportion_moes", "population_counts", "population_counts_moe", "rows_base",
             "rows_margin"]


def _recode(sch, data, vi, ids, item=None):
    """Merge categories `ids` of variable vi into ids[0] in every respondent."""
    out = []
    for ans, w, num in data:
        a = list(ans)
        if item is None:
            if a[vi] in ids:
                a[vi] = ids[0]
        else:
            a[vi] = tuple(ids[0] if x in ids else x for x in a[vi])
        out.append((tuple(a), w, num))
    return out


def _dim_var(sch, which):
    """(var index, is_ca) for the rows (0) / columns (1) dimension of a 2-D or 1-D schema."""
    dims = sch.dims
    if sch.numeric and sch.numeric.get("numarr"):
        # rows = numeric array (no dims entry), columns = dims[0]
        return (None, False) if which == 0 else (dims[0][1], False)
    role, vi = dims[which] if len(dims) > which else dims[0]
    return vi, role == "ca_cats"


def check(space, state):
    sch, data, cfg = _unpack(space, state)
    resp = tabulate(sch, data)
    cube = Cube(resp, transforms=({} if space.startswith("view_") else transforms_for(cfg)), population=1000)
    part = cube.partitions[0]
    kind, _lbl, orc = partition_oracles(sch, data)[0]
    T = _V()
    nontrivial = False
    has_valid_counts = bool(sch.numeric and (sch.numeric.get("valid_counts", True) or sch.numeric.get("numarr")))
    numarr = bool(sch.numeric and sch.numeric.get("numarr"))

    if kind == "strand":
        nontrivial = _check_strand(T, sch, data, cfg, part, orc)
        return Res(T.v, nontrivial, digest(space, state[1], arr_bytes(part.counts)), T.asserted)

    rs = resolve_insertions(orc.rows, cfg.get("rows"))
    cs = resolve_insertions(orc.cols, cfg.get("cols"))
    ro = [int(i) for i in part.row_order()]
    co = [int(i) for i in part.column_order()]
    nr, nc = len(orc.rows), len(orc.cols)
    bpos_r = [ro.index(i) for i in range(nr)]   # no hiding here: every base element shows
    bpos_c = [co.index(j) for j in range(nc)]
    spos_r = [_sub_pos(ro, k, len(rs)) for k in range(len(rs))]
    spos_c = [_sub_pos(co, k, len(cs)) for k in range(len(cs))]

    T.asserted += 1
    if len(ro) != nr + len(rs) or len(co) != nc + len(cs) or None in spos_r or None in spos_c:
        T.v.append(viol("shape", "display has %dx%d vectors, expected %d+%d x %d+%d"
                        % (len(ro), len(co), nr, len(rs), nc, len(cs))))
        return Res(T.v, False, None, T.asserted)

    # which insertions are differences, as reported by the library
    exp_diff_r = tuple(sorted(spos_r[k] for k, (_, a, s) in enumerate(rs) if s))
    exp_diff_c = tuple(sorted(spos_c[k] for k, (_, a, s) in enumerate(cs) if s))
    T.eq("diff_row_idxs", "diff_row_idxs", list(part.diff_row_idxs), list(exp_diff_r))
    T.eq("diff_column_idxs", "diff_column_idxs", list(part.diff_column_idxs), list(exp_diff_c))
    T.eq("inserted_row_idxs", "inserted_row_idxs", list(part.inserted_row_idxs), sorted(spos_r))
    T.eq("inserted_column_idxs", "inserted_column_idxs", list(part.inserted_column_idxs), sorted(spos_c))

    date_r = orc.rows.kind == "CAT_DATE"
    date_c = orc.cols.kind == "CAT_DATE"

    # ---------------------------------------------------------------- 1. arithmetic
    measures = list(ADDITIVE_2D)
    if sch.numeric and "sum" in sch.numeric["measures"]:
        measures.append("sums")
    for name in measures:
        m = np.asarray(getattr(part, name), dtype=float)
        base = m[np.ix_(bpos_r, bpos_c)]
        diff_nan = (name == "sums") or has_valid_counts
        for k, (_, add, sub) in enumerate(rs):
            exp = _signed(base, add, sub, 0)
            if sub and diff_nan:
                exp = np.full(nc, NANF)
            T.eq("arith:%s:row" % name, name, m[spos_r[k], :][bpos_c], exp, "subtotal row %d" % k)
        for k, (_, add, sub) in enumerate(cs):
            exp = _signed(base, add, sub, 1)
            if sub and diff_nan:
                exp = np.full(nr, NANF)
            T.eq("arith:%s:col" % name, name, m[:, spos_c[k]][bpos_r], exp, "subtotal column %d" % k)
        # intersections: whichever direction is accumulated first
        for kr, (_, ra, rsb) in enumerate(rs):
            for kc, (_, ca_, csb) in enumerate(cs):
                obs = m[spos_r[kr], spos_c[kc]]
                if (rsb and csb) or ((rsb or csb) and diff_nan):
                    T.allnan("intersection:%s:diff" % name, name, obs, "difference intersection")
                    continue
                rows_first = _signed(_signed(base, ra, rsb, 0), ca_, csb, None)
                cols_first = _signed(_signed(base, ca_, csb, 1), ra, rsb, None)
                T.eq("intersection:%s:commute" % name, name, rows_first, cols_first, "rows-first vs columns-first")
                T.eq("intersection:%s" % name, name, obs, rows_first, "intersection")
        if name == "unweighted_counts":
            nontrivial = nontrivial or any(
                np.nansum(np.abs(m[p, :])) > 0 for p in spos_r) or any(
                np.nansum(np.abs(m[:, p])) > 0 for p in spos_c)

    # --------------------------------------------------- 4. non-additive measures are NaN
    for name in NAN_FOR_SUBTOTALS:
        if name in ("means", "medians", "stddev"):
            need = {"means": "mean", "medians": "median", "stddev": "stddev"}[name]
            if not (sch.numeric and need in sch.numeric["measures"]):
                continue
        if name == "column_index" and (numarr or orc.ca is not None or sch.numeric):
            continue
        m = np.asarray(getattr(part, name), dtype=float)
        for p in spos_r:
            T.allnan("nan:%s" % name, name, m[p, :], "on a subtotal row")
        for p in spos_c:
            T.allnan("nan:%s" % name, name, m[:, p], "on a subtotal column")

    # ------------------------------------------------------ 5. differences: NaN / wave rules
    if not sch.numeric:
        _check_differences(T, part, orc, rs, cs, spos_r, spos_c, bpos_r, bpos_c, date_r, date_c)

    # ---------------------------------------------------------------- 3. merge equivalence
    if not sch.numeric:
        # every plain subtotal of the lists, whatever else is inserted next to it
        for k in range(len(rs)):
            _check_merge(T, sch, data, cfg, part, orc, rs, cs, spos_r, spos_c, bpos_r, bpos_c, True, k)
        for k in range(len(cs)):
            _check_merge(T, sch, data, cfg, part, orc, rs, cs, spos_r, spos_c, bpos_r, bpos_c, False, k)

    return Res(T.v, nontrivial, digest(space, state[1], arr_bytes(part.counts, part.unweighted_counts)), T.asserted)


def _check_differences(T, part, orc, rs, cs, spos_r, spos_c, bpos_r, bpos_c, date_r, date_c):
    counts = np.asarray(part.counts, dtype=float)
    base = counts[np.ix_(bpos_r, bpos_c)]
    rb = np.asarray(part.row_weighted_bases, dtype=float)
    cb = np.asarray(part.column_weighted_bases, dtype=float)
    rp = np.asarray(part.row_proportions, dtype=float)
    cp = np.asarray(part.column_proportions, dtype=float)
    tp = np.asarray(part.table_proportions, dtype=float)
    base_rb = rb[np.ix_(bpos_r, bpos_c)]
    base_cb = cb[np.ix_(bpos_r, bpos_c)]
    for k, (_, add, sub) in enumerate(rs):
        if not sub:
            continue
        p = spos_r[k]
        T.allnan("diff:row_bases", "row_weighted_bases", rb[p, :], "own-direction base of a row difference")
        T.allnan("diff:row_bases", "row_unweighted_bases", np.asarray(part.row_unweighted_bases, dtype=float)[p, :],
                 "own-direction base of a row difference")
        multi = len(sub) > 1 or len(add) > 1
        if date_r:
            if multi:
                cause = ":first_element_subtrahend" if (sub == [0]) else ""
                T.allnan("wave:row_proportions:multi" + cause, "row_proportions", rp[p, :][bpos_c],
                         "multi-term difference on a categorical-date dimension")
                T.allnan("wave:column_proportions:multi" + cause, "column_proportions", cp[p, :][bpos_c],
                         "multi-term difference on a categorical-date dimension")
                T.allnan("wave:table_proportions:multi", "table_proportions", tp[p, :][bpos_c],
                         "multi-term difference on a categorical-date dimension")
            elif len(add) == 1 and len(sub) == 1:
                a, s = add[0], sub[0]
                exp = [div(base[a, j], base_rb[a, j]) - div(base[s, j], base_rb[s, j]) for j in range(base.shape[1])]
                T.eq("wave:row_proportions:1-1", "row_proportions", rp[p, :][bpos_c], exp,
                     "1-1 wave difference = difference of the two row percentages")
                exp = [div(base[a, j], base_cb[a, j]) - div(base[s, j], base_cb[s, j]) for j in range(base.shape[1])]
                T.eq("wave:column_proportions:1-1", "column_proportions", cp[p, :][bpos_c], exp,
                     "1-1 wave difference = difference of the two column percentages")
        else:
            T.allnan("diff:row_proportions", "row_proportions", rp[p, :], "own-direction proportion of a row difference")
    for k, (_, add, sub) in enumerate(cs):
        if not sub:
            continue
        p = spos_c[k]
        T.allnan("diff:column_bases", "column_weighted_bases", cb[:, p], "own-direction base of a column difference")
        T.allnan("diff:column_bases", "column_unweighted_bases",
                 np.asarray(part.column_unweighted_bases, dtype=float)[:, p], "own-direction base of a column difference")
        multi = len(sub) > 1 or len(add) > 1
        if date_c:
            if multi:
                cause = ":first_element_subtrahend" if (sub == [0]) else ""
                T.allnan("wave:column_proportions:multi" + cause, "column_proportions", cp[:, p][bpos_r],
                         "multi-term difference on a categorical-date dimension")
                T.allnan("wave:row_proportions:multi" + cause, "row_proportions", rp[:, p][bpos_r],
                         "multi-term difference on a categorical-date dimension")
                T.allnan("wave:table_proportions:multi", "table_proportions", tp[:, p][bpos_r],
                         "multi-term difference on a categorical-date dimension")
            elif len(add) == 1 and len(sub) == 1:
                a, s = add[0], sub[0]
                exp = [div(base[i, a], base_cb[i, a]) - div(base[i, s], base_cb[i, s]) for i in range(base.shape[0])]
                T.eq("wave:column_proportions:1-1", "column_proportions", cp[:, p][bpos_r], exp,
                     "1-1 wave difference = difference of the two column percentages")
                exp = [div(base[i, a], base_rb[i, a]) - div(base[i, s], base_rb[i, s]) for i in range(base.shape[0])]
                T.eq("wave:row_proportions:1-1", "row_proportions", rp[:, p][bpos_r], exp,
                     "1-1 wave difference = difference of the two row percentages")
        else:
            T.allnan("diff:column_proportions", "column_proportions", cp[:, p],
                     "own-direction proportion of a column difference")


def _rank_ok(orc):
    m = orc.matrix("count", True)
    return bool(m) and bool(m[0]) and rank_rational(m) >= 2


def _check_merge(T, sch, data, cfg, part, orc, rs, cs, spos_r, spos_c, bpos_r, bpos_c, on_rows, k):
    """A plain subtotal must equal, measure by measure, the category obtained by merging
    its addends in the data (second run of the library on recoded respondents)."""
    ins, add, sub = (rs if on_rows else cs)[k]
    if sub or not add:
        return
    axis = orc.rows if on_rows else orc.cols
    vi, is_ca = _dim_var(sch, 0 if on_rows else 1)
    if vi is None:
        return
    ids = [axis.ids[a] for a in add]
    data2 = _recode(sch, data, vi, ids, item=True if is_ca else None)
    # the reference run has NO insertions at all (also none on the variable view)
    plain = SCHEMAS.get(sch.name, sch)
    cube2 = Cube(tabulate(plain, data2), population=1000)
    p2 = cube2.partitions[0]
    orc2 = partition_oracles(sch, data2)[0][2]
    k0 = add[0]
    pos = (spos_r if on_rows else spos_c)[k]
    others_r = list(range(len(orc.rows))) if not on_rows else None
    # columns/rows to compare along: all base elements of the opposing dimension
    for name in M2D:
        try:
            a = np.asarray(getattr(part, name), dtype=float)
            b = np.asarray(getattr(p2, name), dtype=float)
        except Exception as e:  # pragma: no cover
            T.v.append(viol("merge:%s:exception" % name, "reading %s raised %r" % (name, e)))
            continue
        va = a[pos, :][bpos_c] if on_rows else a[:, pos][bpos_r]
        vb = b[k0, :] if on_rows else b[:, k0]
        T.eq("merge:%s" % name, name, va, vb, "subtotal vs merged category (%s)" % ("row" if on_rows else "column"))
    # z-scores / p-values: only when both tables have two independent rows and columns
    if _rank_ok(orc) and _rank_ok(orc2):
        for name in ("zscores", "pvals"):
            a = np.asarray(getattr(part, name), dtype=float)
            b = np.asarray(getattr(p2, name), dtype=float)
            va = a[pos, :][bpos_c] if on_rows else a[:, pos][bpos_r]
            vb = b[k0, :] if on_rows else b[:, k0]
            # cells whose residual variance is exactly zero are 0/0 or x/0: unasserted
            o2 = orc2.all(True)
            exp = []
            for t in range(len(vb)):
                i, j = (k0, t) if on_rows else (t, k0)
                rb_, cb_, tb_ = o2["row_base"][i][j], o2["col_base"][i][j], o2["table_base"][i][j]
                var0 = tb_ == 0 or rb_ * cb_ * (tb_ - rb_) * (tb_ - cb_) == 0
                exp.append(SKIP if var0 else vb[t])
            if all(isnan(x) for x in to_list(va)) and not all(isnan(x) for x in to_list(vb)):
                # block-level degenerate guard fired in one table only (0/0 short-cut): skip
                T.asserted += 1
                if all((e is SKIP) for e in exp):
                    continue
            T.eq("merge:%s" % name, name, va, exp, "subtotal vs merged category")
    # marginals along the subtotal's own dimension
    for name in (ROW_MARGINALS if on_rows else COL_MARGINALS):
        a, b = getattr(part, name), getattr(p2, name)
        if a is None or b is None:
            T.eq("merge:%s:none" % name, name, a is None, b is None, "definedness")
            continue
        a, b = np.asarray(a, dtype=float), np.asarray(b, dtype=float)
        if a.ndim == 1:
            T.eq("merge:%s" % name, name, a[pos], b[k0], "marginal at the subtotal")
        else:
            va = a[pos, :][bpos_c] if on_rows else a[:, pos][bpos_r]
            vb = b[k0, :] if on_rows else b[:, k0]
            if name.endswith("margin_proportion"):
                continue   # 2-D fallback of the margin proportion is owned by C03 (see KF1)
            T.eq("merge:%s" % name, name, va, vb, "2-D marginal at the subtotal")
    # pairwise column tests
    if orc.cols.kind in ("CAT", "CAT_DATE", "ENUM", "MR") and orc.rows.kind in ("CAT", "CAT_DATE", "ENUM", "MR") \
            and orc.ca is None:
        nc = len(orc.cols)
        if on_rows:
            for sel in range(nc):
                for fn in ("pairwise_significance_t_stats", "pairwise_significance_p_vals"):
                    a = np.asarray(getattr(part, fn)(bpos_c[sel]), dtype=float)
                    b = np.asarray(getattr(p2, fn)(sel), dtype=float)
                    T.eq("merge:%s" % fn, fn, a[pos, :][bpos_c], b[k0, :], "subtotal row, selected column %d" % sel)
        else:
            keep = [j for j in range(nc) if j not in add]
            for fn in ("pairwise_significance_t_stats", "pairwise_significance_p_vals"):
                # subtotal column as the selected column, compared with non-addend columns
                a = np.asarray(getattr(part, fn)(pos), dtype=float)
                b = np.asarray(getattr(p2, fn)(k0), dtype=float)
                T.eq("merge:%s:selected" % fn, fn, a[np.ix_(bpos_r, [bpos_c[j] for j in keep])], b[:, keep],
                     "subtotal column selected")
                # subtotal column as the compared column
                for sel in keep:
                    a = np.asarray(getattr(part, fn)(bpos_c[sel]), dtype=float)
                    b = np.asarray(getattr(p2, fn)(sel), dtype=float)
                    T.eq("merge:%s:compared" % fn, fn, a[:, pos][bpos_r], b[:, k0], "subtotal column compared")


def _check_strand(T, sch, data, cfg, part, orc):
    rs = resolve_insertions(orc.rows, cfg.get("rows"))
    ro = [int(i) for i in part.row_order()]
    n = len(orc.rows)
    T.asserted += 1
    if len(ro) != n + len(rs):
        T.v.append(viol("shape", "strand shows %d rows, expected %d+%d" % (len(ro), n, len(rs))))
        return False
    bpos = [ro.index(i) for i in range(n)]
    spos = [_sub_pos(ro, k, len(rs)) for k in range(len(rs))]
    date = orc.rows.kind == "CAT_DATE"
    nontrivial = False
    T.eq("diff_row_idxs", "diff_row_idxs", list(part.diff_row_idxs),
         sorted(spos[k] for k, (_, a, s) in enumerate(rs) if s))
    for name in ("counts", "unweighted_counts"):
        v = np.asarray(getattr(part, name), dtype=float)
        base = v[bpos]
        for k, (_, add, sub) in enumerate(rs):
            T.eq("arith:strand:%s" % name, name, v[spos[k]], _signed(base, add, sub, None), "subtotal %d" % k)
            nontrivial = nontrivial or abs(v[spos[k]]) > 0
    counts = np.asarray(part.counts, dtype=float)[bpos]
    wb = np.asarray(part.weighted_bases, dtype=float)
    tp = np.asarray(part.table_proportions, dtype=float)
    for k, (_, add, sub) in enumerate(rs):
        if not sub:
            continue
        multi = len(sub) > 1 or len(add) > 1
        if date and add:
            if multi:
                cause = ":first_element_subtrahend" if sub == [0] else ""
                T.allnan("wave:strand:table_proportions:multi" + cause, "table_proportions", tp[spos[k]],
                         "multi-term difference on a categorical-date strand")
            else:
                a, s = add[0], sub[0]
                exp = div(counts[a], wb[bpos[a]]) - div(counts[s], wb[bpos[s]])
                T.eq("wave:strand:table_proportions:1-1", "table_proportions", tp[spos[k]], exp,
                     "1-1 wave difference")
    # merge equivalence on a strand with a single plain subtotal
    if len(rs) == 1 and not rs[0][2] and rs[0][1] and not sch.numeric:
        _, add, _ = rs[0]
        ids = [orc.rows.ids[a] for a in add]
        vi = sch.dims[0][1]
        data2 = _recode(sch, data, vi, ids)
        p2 = Cube(tabulate(SCHEMAS.get(sch.name, sch), data2), population=1000).partitions[0]
        for name in STRAND_1D:
            a = np.asarray(getattr(part, name), dtype=float)
            b = np.asarray(getattr(p2, name), dtype=float)
            T.eq("merge:strand:%s" % name, name, a[spos[0]], b[add[0]], "subtotal vs merged category")
    return nontrivial
