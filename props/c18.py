# encoding: utf-8
"""C18 - results are a pure function of the arguments, whatever the access history.

System under exploration: live Cube / CubeSet objects built from SHARED argument objects
(response dicts, transforms dicts).  Events: read(object, property[, arg]) and new(variant)
(construct a further cube / cube set from the same, already used, argument objects - also as
JSON text and inside a {"value": ...} envelope - and probe it).  Every history up to the
depth bound is executed on fresh deep copies, from the initial state and from non-initial
states (after "read everything", after new, after a failing read).  Oracle: one reference
table per input computed on pristine copies; every value returned anywhere in a history must
equal its reference entry, and at the end a fresh object built from the USED argument
objects must reproduce the whole table.  The thorough tier adds a cooperative two-thread
schedule exploration (preemption bound 1).
"""

import copy
import hashlib
import itertools
import json

import numpy as np

from cr.cube.cube import Cube, CubeSet
from cr.cube.enums import ORDER_FORMAT

from mc import schemas as S
from mc.common2d import subtotal
from mc.engine import Res, Space, digest, viol
from mc.model import Schema, tabulate

ID = "C18"
CHUNK = 60
RULE = ("states = (input case, start state, history of events) ; every history over the event alphabet up "
        "to the depth bound; canonical state = (set of cached lazy values in the reachable object graph, "
        "digest of the caller-owned argument dicts), counted as distinct outcomes; non-trivial = the "
        "history changes the argument dicts or ends in a cache signature different from its last prefix")
ASSUMPTIONS = ["object-valued results are compared through their public array attributes / repr",
               "the cooperative two-thread exploration (thorough) switches threads only at lazyproperty "
               "boundaries: real OS-level races are out of scope"]
TRUSTED = ["copy.deepcopy", "numpy"]

A2 = S.cat("a", 2, "last", values=[1, 3])
B2 = S.cat("b", 2, "first")
M3 = S.mr("m", 3)
N2 = S.mr("n", 2)
CAq = S.ca("q", 2, 2, "last")
NA3 = S.numarr("na", 3)
DT3 = S.enum("t", "datetime", 3)
V_INS = [{"function": "subtotal", "name": "v12", "anchor": "2", "args": [1, 2]},
         {"function": "subtotal", "name": "vtop", "anchor": "top", "kwargs": {"positive": [1], "negative": [2]}}]
AV = S.cat("a", 2, "last", values=[1, 3], view_insertions=V_INS)


def _mr_data():
    pats = [(1, 0, 0), (1, 1, 0), (1, 1, 1), (0, 1, -1)]
    return pats


def case_cat_x_mr():
    sch = S.schema2("cat_x_mr", A2, M3, weighted=True)
    data = [((1 + i % 2, p), 1 + i % 2, None) for i, p in enumerate(_mr_data())]
    t = {"rows_dimension": {"order": {"type": "explicit", "element_ids": [2, 1]},
                            "insertions": [subtotal("s12", [1, 2], anchor="top", sid=4)]},
         "columns_dimension": {"elements": {"1": {"hide": True}, "0003": {"name": "third"}},
                               "order": {"type": "explicit", "element_ids": ["0002", 99, "m_1", 1]}},
         "pairwise_indices": {"alpha": [0.05, 0.4], "only_larger": False}}
    return "cube", [tabulate(sch, data)], [t], 1000, 1


def case_mr_x_cat_sorted():
    sch = S.schema2("mr_x_cat", M3, B2)
    data = [((p, 1 + i % 2), 1, None) for i, p in enumerate(_mr_data())]
    t = {"rows_dimension": {"order": {"type": "opposing_element", "element_id": 1, "measure": "col_percent",
                                      "fixed": {"top": ["0001"], "bottom": [2, "zz"]}},
                            "elements": {"2": {"fill": "#abcdef"}}, "prune": True},
         "columns_dimension": {"order": {"type": "opposing_element", "element_id": "2", "measure": "row_percent"}}}
    return "cube", [tabulate(sch, data)], [t], 500, 0


def case_3d_cat_mr_mr():
    sch = Schema("cat_x_mr_x_mr", [S.cat("t", 2, "first"), M3, N2], [("cat", 0), ("mr", 1), ("mr", 2)])
    data = [((1 + i % 2, p, (1, i % 2)), 1, None) for i, p in enumerate(_mr_data())]
    t = {"rows_dimension": {"order": {"type": "explicit", "element_ids": [2, 99, 1]}},
         "columns_dimension": {"elements": {"0": {"hide": True}}}}
    return "cube", [tabulate(sch, data)], [t], 0, 0


def case_3d_alias_keyed_elements():
    # element transforms keyed by ALIAS ("key": "alias") with a stale numeric-looking alias, shimmed once per table
    sch = Schema("cat_x_mr_x_cat_keyed", [S.cat("t", 2, "first"), M3, B2], [("cat", 0), ("mr", 1), ("cat", 2)])
    data = [((1 + i % 2, p, 1 + (i // 2) % 2), 1, None) for i, p in enumerate(_mr_data())]
    t = {"rows_dimension": {"elements": {"key": "alias", "m_1": {"hide": True}, "2": {"hide": True}, "3": {"name": "X"}}}}
    return "cube", [tabulate(sch, data)], [t], 0, 0


def case_3d_mr_cat_cat():
    sch = Schema("mr_x_cat_x_cat", [N2, AV, B2], [("mr", 0), ("cat", 1), ("cat", 2)], weighted=True)
    data = [(((1, i % 2), 1 + i % 2, 1 + (i // 2) % 2), 1 + i % 2, None) for i in range(5)]
    t = {"columns_dimension": {"insertions": [subtotal("c12", [1, 2], anchor="bottom")], "prune": True}}
    return "cube", [tabulate(sch, data)], [t], 100, 2


def case_ca():
    sch = Schema("ca", [CAq], [("ca_items", 0), ("ca_cats", 0)])
    data = [(((1, 2),), 1, None), (((1, 1),), 1, None), (((2, -1),), 1, None)]
    t = {"rows_dimension": {"order": {"type": "explicit", "element_ids": ["2", "q_1", 7]},
                            "elements": {"0002": {"name": "second"}}},
         "columns_dimension": {"insertions": [subtotal("c12", [1, 2], anchor="top", sid=1)]}}
    return "cube", [tabulate(sch, data)], [t], 10, 0


def case_numarr():
    sch = Schema("numarr_x_cat", [B2], [("cat", 0)], numeric={"measures": ["mean"], "numarr": NA3})
    data = [((1,), 1, (1, 5, 9)), ((2,), 1, (3, None, 2)), ((1,), 1, (None, 6, 4))]
    t = {"rows_dimension": {"order": {"type": "explicit", "element_ids": ["S3", 0, "nope"]},
                            "elements": {"1": {"hide": True}}}}
    return "cube", [tabulate(sch, data)], [t], 0, 0


def case_datetime():
    sch = S.schema2("datetime_x_cat", DT3, B2)
    data = [((i % 3, 1 + i % 2), 1, None) for i in range(5)]
    t = {"rows_dimension": {"order": {"type": "explicit", "element_ids": [2, "2020-01-01", "9"]},
                            "elements": {"2020-01-02": {"hide": True}}}}
    return "cube", [tabulate(sch, data)], [t], 0, 0


def case_cat_view_insertions():
    sch = S.schema2("catv_x_cat", AV, B2, weighted=True)
    data = [((1 + i % 2, 1 + (i // 2) % 2), 1 + i % 2, None) for i in range(5)]
    t = {"rows_dimension": {"order": {"type": "marginal", "marginal": "scale_mean", "direction": "ascending"}},
         "columns_dimension": {"insertions": [{"function": "subtotal", "name": "c21", "anchor": 1,
                                               "kwargs": {"positive": [2, 1]}}]}}
    return "cube", [tabulate(sch, data)], [t], 1000, 1


def case_json_text():
    kind, resps, ts, pop, mb = case_cat_x_mr()
    return "cube", [json.dumps(resps[0])], ts, pop, mb


def case_tabbook():
    vars_ = [A2, B2, M3]
    schs = [Schema("tb1", vars_, [("cat", 0)], weighted=True),
            Schema("tb2", vars_, [("cat", 0), ("cat", 1)], weighted=True),
            Schema("tb3", vars_, [("cat", 0), ("mr", 2)], weighted=True)]
    data = [((1 + i % 2, 1 + (i // 2) % 2, p), 1 + i % 2, None) for i, p in enumerate(_mr_data())]
    ts = [{"rows_dimension": {"insertions": [subtotal("s12", [1, 2], anchor="top")]}},
          {"rows_dimension": {"insertions": [subtotal("s12", [1, 2], anchor="top")]}},
          {"columns_dimension": {"order": {"type": "explicit", "element_ids": [3, "0001", 99]},
                                 "elements": {"m_2": {"hide": True}}}}]
    return "cubeset", [tabulate(s, data) for s in schs], ts, 1000, 1


def case_numeric_summary():
    vars_ = [A2, B2, M3]
    ref = {"alias": "age", "name": "age"}
    schs = [Schema("ns0", vars_, [], numeric={"measures": ["mean"], "valid_counts": True, "references": ref}),
            Schema("ns1", vars_, [("cat", 1)], numeric={"measures": ["mean"], "valid_counts": True, "references": ref}),
            Schema("ns2", vars_, [("mr", 2)], numeric={"measures": ["mean"], "valid_counts": True, "references": ref})]
    data = [((1 + i % 2, 1 + (i // 2) % 2, p), 1, [1, 3, None, 4][i]) for i, p in enumerate(_mr_data())]
    ts = [{}, {}, {"columns_dimension": {"elements": {"1": {"hide": True}}}}]
    return "cubeset", [tabulate(s, data) for s in schs], ts, 0, 0


def case_ca_as_0th():
    sch_ca = Schema("ca2", [CAq, B2], [("ca_items", 0), ("ca_cats", 0)], weighted=True)
    sch_x = Schema("ca3", [CAq, B2], [("ca_items", 0), ("ca_cats", 0), ("cat", 1)], weighted=True)
    data = [(((1, 2), 1), 1, None), (((1, 1), 2), 2, None), (((2, -1), 1), 1, None)]
    ts = [{"rows_dimension": {"insertions": [subtotal("c12", [1, 2], anchor="top")]}},
          {"rows_dimension": {"insertions": [subtotal("c12", [1, 2], anchor="top")]}, "columns_dimension": {"prune": True}}]
    return "cubeset", [tabulate(sch_ca, data), tabulate(sch_x, data)], ts, 50, 0


def case_single_col_filter():
    # text rows in a multitable: summary cube has all labels, the filter-column cube only some
    T4 = S.enum("txt", "text", 4, has_missing=False)
    s_sum = Schema("sum", [T4], [("enum", 0)])
    data = [((i % 4,), 1, None) for i in range(6)]
    r0 = tabulate(s_sum, data)
    T2 = S.enum("txt", "text", 4, has_missing=False)
    r1 = tabulate(s_sum, [((1,), 1, None), ((3,), 1, None), ((3,), 1, None)])
    # the filter cube only carries the elements it counted (values t1, t3)
    els = r1["result"]["dimensions"][0]["type"]["elements"]
    keep = [e for e in els if e["value"] in ("t1", "t3")]
    r1["result"]["dimensions"][0]["type"]["elements"] = keep
    r1["result"]["counts"] = [1, 2]
    r1["result"]["measures"]["count"]["data"] = [1, 2]
    r1["result"]["is_single_col_cube"] = True
    return "cubeset", [r0, r1], [{}, {}], 0, 0


def case_strand_with_difference():
    sch = Schema("cat_1d", [S.cat("a", 3, "mid", values=[1, 2, 3])], [("cat", 0)], weighted=True)
    data = [((1 + i % 3,), 1 + i % 2, None) for i in range(5)]
    t = {"rows_dimension": {"insertions": [
        {"function": "subtotal", "name": "top2", "anchor": "top", "kwargs": {"positive": [1, 2]}},
        {"function": "subtotal", "name": "d3_1", "anchor": 3, "kwargs": {"positive": [3], "negative": [1]}}]}}
    return "cube", [tabulate(sch, data)], [t], 1000, 1


def case_slice_idless_insertions():
    sch = S.schema2("cat3_x_cat2", S.cat("a", 3, "last", values=[1, None, 3]), B2, weighted=True)
    data = [((1 + i % 3, 1 + (i // 2) % 2), 1 + i % 2, None) for i in range(6)]
    t = {"rows_dimension": {"insertions": [
        {"function": "subtotal", "name": "only1", "anchor": "top", "kwargs": {"positive": [1]}},
        {"function": "subtotal", "name": "two3", "anchor": "bottom", "kwargs": {"positive": [2, 3]}},
        {"function": "subtotal", "name": "d2_3", "anchor": 2, "kwargs": {"positive": [2], "negative": [3]}}]},
         "columns_dimension": {"order": {"type": "opposing_insertion", "insertion_id": 2, "measure": "row_percent"}}}
    return "cube", [tabulate(sch, data)], [t], 100, 0


def case_catdate_smoothing():
    # means by CAT x CAT_DATE with a smoother on the date dimension: smoothed reads next to plain ones
    sch = S.schema2("g_x_date", S.cat("g", 2, "last", values=[1, 3]), S.cat("d", 3, "first", date=True),
                    numeric={"measures": ["mean"], "valid_counts": True})
    data = [((1 + i % 2, 1 + i % 3), 1, 1 + (i * 7) % 4) for i in range(7)]
    t = {"columns_dimension": {"smoother": {"function": "one_sided_moving_avg", "window": 2}},
         "rows_dimension": {"insertions": [{"function": "subtotal", "name": "g12", "anchor": "top", "kwargs": {"positive": [1, 2]}}]}}
    return "cube", [tabulate(sch, data)], [t], 1000, 0


def case_catdate_counts_smoothing():
    sch = S.schema2("g_x_date_counts", S.cat("g", 2, "last", values=[1, 3]), S.cat("d", 3, "first", date=True), weighted=True)
    data = [((1 + i % 2, 1 + (i // 2) % 3), 1 + i % 2, None) for i in range(8)]
    t = {"columns_dimension": {"smoother": {"function": "one_sided_moving_avg", "window": 2}}}
    return "cube", [tabulate(sch, data)], [t], 1000, 0


def case_sum_strand():
    # share of sum next to the sums it is computed from
    sch = Schema("sum_1d", [S.cat("a", 3, "mid", values=[1, 2, 3])], [("cat", 0)], numeric={"measures": ["sum", "mean"], "valid_counts": True})
    data = [((1 + i % 3,), 1, 1 + (i * 5) % 4) for i in range(7)]
    t = {"rows_dimension": {"insertions": [{"function": "subtotal", "name": "a12", "anchor": "top", "kwargs": {"positive": [1, 2]}}]}}
    return "cube", [tabulate(sch, data)], [t], 0, 0


def case_sum_slice():
    sch = S.schema2("sum_2d", S.cat("a", 3, "mid", values=[1, 2, 3]), B2, numeric={"measures": ["sum", "mean", "stddev"], "valid_counts": True})
    data = [((1 + i % 3, 1 + (i // 2) % 2), 1, 1 + (i * 5) % 4) for i in range(9)]
    t = {"rows_dimension": {"insertions": [{"function": "subtotal", "name": "a12", "anchor": "top", "kwargs": {"positive": [1, 2]}}]},
         "columns_dimension": {"insertions": [{"function": "subtotal", "name": "b12", "anchor": "bottom", "kwargs": {"positive": [1, 2]}}]}}
    return "cube", [tabulate(sch, data)], [t], 0, 0


def case_catdate_strand():
    # categorical-date strand with population estimates (all-ones population proportions) and a subtotal
    sch = Schema("date_1d", [S.cat("d", 3, "first", date=True)], [("cat", 0)], weighted=True)
    data = [((1 + i % 3,), 1 + i % 2, None) for i in range(5)]
    t = {"rows_dimension": {"insertions": [{"function": "subtotal", "name": "w12", "anchor": "bottom", "kwargs": {"positive": [1, 2]}}]}}
    return "cube", [tabulate(sch, data)], [t], 1000, 0


def case_scale_strand_nan_count():
    # weighted strand with numeric values, one category's weighted count undefined (NaN): the scale statistics share
    # one cached count vector, and the median treats NaN counts as zero where mean / std-dev propagate them
    sch = Schema("scale_1d", [S.cat("a", 4, "mid", values=[1, 2, 3, 5])], [("cat", 0)], weighted=True)
    data = [((1 + i % 4,), 1 + i % 2, None) for i in range(9)]
    resp = tabulate(sch, data)
    resp["result"]["measures"]["count"]["data"][2] = float("nan")      # a valid category (index 1 is the missing one)
    return "cube", [resp], [{}], 0, 0


CASES = [case_strand_with_difference, case_slice_idless_insertions, case_cat_x_mr, case_mr_x_cat_sorted, case_3d_cat_mr_mr, case_3d_mr_cat_cat, case_ca, case_numarr,
         case_datetime, case_cat_view_insertions, case_json_text, case_tabbook, case_numeric_summary,
         case_ca_as_0th, case_single_col_filter, case_catdate_smoothing, case_catdate_counts_smoothing, case_catdate_strand,
         case_sum_strand, case_sum_slice, case_3d_alias_keyed_elements, case_scale_strand_nan_count]
SCHEMAS = {}

# ------------------------------------------------------------------------ reading
PART_SKIP = {"pairwise_significance_tests"}
METHODS = {"row_order": [(), (ORDER_FORMAT.BOGUS_IDS,)], "column_order": [(), (ORDER_FORMAT.BOGUS_IDS,)],
           "pairwise_significance_t_stats": [(0,)], "pairwise_significance_p_vals": [(0,)],
           "pairwise_significance_means_t_stats": [(0,)], "pairwise_significance_means_p_vals": [(0,)]}
CORE_PART = ["counts", "unweighted_counts", "row_labels", "column_labels", "row_proportions", "column_proportions",
             "table_proportions", "column_index", "zscores", "pairwise_indices", "rows_scale_mean", "columns_margin",
             "rows_margin", "table_base", "population_counts", "shape", "means", "payload_order", "min_base_size_mask",
             "inserted_row_idxs", "row_codes", "rows_dimension_fills", "table_name", "is_empty", "smoothed_means",
             "scale_mean", "table_proportions", "unweighted_bases", "row_aliases", "derived_row_idxs", "name",
             "columns_scale_mean_margin", "rows_margin_proportion", "diff_row_idxs", "population_fraction",
             "scale_median", "scale_std_dev", "scale_std_err"]
CORE_METHODS = [("row_order", ()), ("row_order", (ORDER_FORMAT.BOGUS_IDS,)), ("column_order", ()),
                ("pairwise_significance_t_stats", (0,))]
ROOT_CUBE = ["partitions", "counts", "dimension_types", "name", "description", "available_measures",
             "population_fraction", "valid_counts_summary_range", "ndim", "missing", "n_responses", "title",
             "unweighted_counts", "has_weighted_counts", "means", "weighted_counts", "counts_with_missings"]
ROOT_SET = ["partition_sets", "name", "description", "can_show_pairwise", "has_weighted_counts", "has_numeric_measures",
            "is_ca_as_0th", "missing_count", "population_fraction", "n_responses", "available_measures",
            "valid_counts_summary_range"]


def norm(v, depth=0):
    """stable, comparable representation of a returned value"""
    if v is None or isinstance(v, (bool, int, str)):
        return repr(v)
    if isinstance(v, float):
        return "nan" if v != v else repr(round(v, 9))
    if isinstance(v, np.ndarray):
        if v.dtype == object:
            return "objarr:" + repr([[tuple(int(x) for x in c) if isinstance(c, (tuple, list, np.ndarray)) else norm(c, depth + 1)
                                      for c in (row if isinstance(row, (list, np.ndarray)) else [row])] for row in v.tolist()])
        if v.dtype.kind in "fc":
            return "arr:%s:%s" % (v.shape, hashlib.blake2b(np.ascontiguousarray(np.round(v.astype(float), 9) + 0.0).tobytes(),
                                                           digest_size=8).hexdigest())
        return "arr:%s:%s" % (v.shape, repr(v.tolist()))
    if isinstance(v, np.generic):
        return norm(v.item(), depth)
    if isinstance(v, (tuple, list, frozenset, set)):
        seq = sorted(v, key=repr) if isinstance(v, (frozenset, set)) else v
        if depth > 3:
            return "seq"
        return "(" + ",".join(norm(x, depth + 1) for x in seq) + ")"
    cls = type(v).__name__
    if cls == "MinBaseSizeMask":
        return "mask(" + ",".join(norm(getattr(v, a), depth + 1) for a in ("row_mask", "column_mask", "table_mask")) + ")"
    if cls in ("_Slice", "_Strand", "_Nub"):
        return "%s@%s" % (cls, norm(getattr(v, "shape", None), depth + 1) if cls != "_Nub" else "()")
    if cls in ("Cube", "CubeSet"):
        return cls
    return "%s:%s" % (cls, repr(v)[:80])


def _public(obj, skip=()):
    out = []
    for n in dir(type(obj)):
        if n.startswith("_") or n in skip:
            continue
        attr = getattr(type(obj), n, None)
        if callable(attr) and not hasattr(attr, "_fget"):
            if n in METHODS:
                for args in METHODS[n]:
                    out.append((n, args))
            continue
        out.append((n, None))
    return out


def do_read(obj, name, args):
    try:
        v = getattr(obj, name)
        if args is not None:
            v = v(*args)
        return ("ok", norm(v))
    except Exception as e:
        return ("exc", type(e).__name__)


class World:
    """Live objects of one execution, all built from the SAME argument objects."""

    def __init__(self, case_idx):
        kind, resps, ts, pop, mb = CASES[case_idx]()
        self.kind, self.resps, self.ts, self.pop, self.mb = kind, resps, ts, pop, mb
        self.root = self.make("same")

    def make(self, variant):
        resps = self.resps
        if variant == "json":
            resps = [r if isinstance(r, str) else json.dumps(r) for r in self.resps]
        elif variant == "envelope":
            resps = [r if isinstance(r, str) else {"value": r} for r in self.resps]
        elif variant == "json_envelope":
            resps = [r if isinstance(r, str) else json.dumps({"value": r}) for r in self.resps]
        if self.kind == "cube":
            return Cube(resps[0], transforms=self.ts[0], population=self.pop, mask_size=self.mb)
        return CubeSet(resps, self.ts, self.pop, self.mb)

    def alt_response(self):
        """another response for the same query: the first valid category of the rows dimension is
        flagged missing (so some insertions lose their terms / become invalid)"""
        r = self.resps[0]
        r = copy.deepcopy(json.loads(r) if isinstance(r, str) else r)
        dims = r["result"]["dimensions"]
        for d in dims:
            cats = d["type"].get("categories")
            if cats and not d.get("references", {}).get("subreferences"):
                for c in cats:
                    if not c.get("missing"):
                        c["missing"] = True
                        return r
        return r

    def parts(self, root=None):
        root = root or self.root
        if self.kind == "cube":
            return [("part", k, p) for k, p in enumerate(root.partitions)]
        out = []
        for k, ps in enumerate(root.partition_sets):
            for j, p in enumerate(ps):
                out.append(("set", (k, j), p))
        return out

    def args_digest(self):
        h = hashlib.blake2b(digest_size=8)
        for r in self.resps:
            h.update((r if isinstance(r, str) else json.dumps(r, sort_keys=True, default=repr)).encode())
        h.update(json.dumps(self.ts, sort_keys=True, default=repr).encode())
        return h.hexdigest()


def full_table(world, root=None):
    """{(objpath, name, args): outcome} for every public read of root and all partitions"""
    root = root or world.root
    tab = {}
    for n, a in _public(root):
        if n in ("partitions", "partition_sets"):
            continue
        tab[("root", n, a)] = do_read(root, n, a)
    try:
        parts = world.parts(root)
    except Exception as e:
        tab[("root", "partitions", None)] = ("exc", type(e).__name__)
        return tab
    tab[("root", "n_partitions", None)] = ("ok", repr(len(parts)))
    for tag, k, p in parts:
        for n, a in _public(p, PART_SKIP):
            tab[((tag, k), n, a)] = do_read(p, n, a)
    return tab


_REF = {}
CUBE_PROBES = [("counts", None), ("row_labels", None), ("shape", None), ("means", None), ("row_order", ()),
               ("unweighted_counts", None), ("column_labels", None)]


def standalone_table(world, i):
    """probe reads of Cube(responses[i], transforms[i]) built on its own (not via the CubeSet)"""
    tab = {}
    try:
        c = Cube(world.resps[i], transforms=world.ts[i], population=world.pop, mask_size=world.mb)
        tab[("cube", i, "ndim")] = do_read(c, "ndim", None)
        tab[("cube", i, "dimension_types")] = do_read(c, "dimension_types", None)
        parts = c.partitions
        tab[("cube", i, "n_partitions")] = ("ok", repr(len(parts)))
        for k, p in enumerate(parts):
            for n, a in CUBE_PROBES:
                if hasattr(type(p), n):
                    tab[("cube", i, k, n, a)] = do_read(p, n, a)
    except Exception as e:
        tab[("cube", i, "raises")] = ("exc", type(e).__name__)
    return tab


def alt_table(world, transforms):
    tab = {}
    try:
        c = Cube(world.alt_response(), transforms=transforms, population=world.pop, mask_size=world.mb)
        parts = c.partitions
        tab[("alt", "n_partitions")] = ("ok", repr(len(parts)))
        for k, p in enumerate(parts):
            for n, a in CUBE_PROBES + [("row_codes", None), ("row_order", (ORDER_FORMAT.BOGUS_IDS,)),
                                       ("column_order", ()), ("table_proportions", None)]:
                if hasattr(type(p), n):
                    tab[("alt", k, n, a)] = do_read(p, n, a)
    except Exception as e:
        tab[("alt", "raises")] = ("exc", type(e).__name__)
    return tab


def reference(case_idx):
    if case_idx not in _REF:
        w = World(case_idx)
        if w.kind == "cube":
            w0 = World(case_idx)
            _REF[("alt", case_idx)] = alt_table(w0, w0.ts[0])
        if w.kind == "cubeset":
            sa = {}
            for i in range(len(w.resps)):
                sa.update(standalone_table(World(case_idx), i))
            _REF[("standalone", case_idx)] = sa
        w = World(case_idx)
        tab = full_table(w)
        n_parts = len(w.parts()) if ("root", "partitions", None) not in tab else 0
        _REF[case_idx] = (tab, n_parts, w.args_digest(), [(t, k) for t, k, _ in (w.parts() if n_parts else [])])
    return _REF[case_idx]


def alphabet(case_idx, tier):
    """list of events for this input"""
    tab, n_parts, _d, plist = reference(case_idx)
    kind = CASES[case_idx]()[0]
    ev = []
    roots = ROOT_CUBE if kind == "cube" else ROOT_SET
    for n in roots:
        if ("root", n, None) in tab or n in ("partitions", "partition_sets"):
            ev.append(("r", "root", n, None))
    for (t, k) in plist:
        for n in CORE_PART:
            if ((t, k), n, None) in tab:
                ev.append(("r", (t, k), n, None))
        for n, a in CORE_METHODS:
            if ((t, k), n, a) in tab:
                ev.append(("r", (t, k), n, a))
    for variant in ("same", "json", "envelope", "json_envelope"):
        ev.append(("new", variant))
    if kind == "cubeset":
        for i in range(len(CASES[case_idx]()[1])):
            ev.append(("new_cube", i))
    else:
        ev.append(("new_alt",))
    if tier == "quick" and len(ev) > 70:
        # quick: thin the per-partition reads (every 2nd) but keep root reads and `new`
        roots_ = [e for e in ev if e[0].startswith("new") or e[1] == "root"]
        rest = [e for e in ev if not (e[0].startswith("new") or e[1] == "root")]
        ev = roots_ + rest[::2]
    return ev


STARTS = ["initial", "after_read_all", "after_new", "after_failed_read"]


def spaces(tier):
    out = []
    depth = 2
    for ci, fn in enumerate(CASES):
        A = alphabet(ci, tier)
        nA = len(A)

        def gen_factory(L, ci=ci, nA=nA, tier=tier):
            def gen():
                tq = 0 if tier == "quick" else 1
                for start in range(len(STARTS)):
                    if start and L > (1 if tier == "quick" else 2):
                        continue
                    for h in itertools.product(range(nA), repeat=L):
                        yield (ci, start, h, tq)
            return gen
        maxd = depth if tier == "quick" else 3
        levels = [(L, gen_factory(L)) for L in range(1, maxd + 1)]
        if tier == "thorough":
            # depth 3 over a reduced alphabet: root reads, `new` events and the first six
            # reads of each partition (indices refer to the full alphabet A)
            seen_per_obj = {}
            red = []
            for i, e in enumerate(A):
                if e[0].startswith("new") or e[1] == "root":
                    red.append(i)
                else:
                    c = seen_per_obj.get(e[1], 0)
                    if c < 6:
                        red.append(i)
                    seen_per_obj[e[1]] = c + 1
            red = red[:28]

            def gen3(ci=ci, red=red):
                for h in itertools.product(red, repeat=3):
                    yield (ci, 0, h, 1)
            levels = [(1, gen_factory(1)), (2, gen_factory(2)), (3, gen3)]
        out.append(Space(fn.__name__, levels, nA, {"case": fn.__name__, "events": nA, "max_history": len(levels),
                                                   "start_states": STARTS}))
    return out


def detail(space, state):
    ci, start, h, tq = state
    A = alphabet(ci, "thorough" if tq else "quick")
    return {"case": CASES[ci].__name__, "start_state": STARTS[start],
            "history": [repr(A[i]) for i in h]}


def _locate(world, path, root=None):
    root = root or world.root
    if path == "root":
        return root
    tag, k = path
    if tag == "part":
        return root.partitions[k]
    return root.partition_sets[k[0]][k[1]]


def _compare(V, tab, key, out, where):
    want = tab.get(key)
    if want is None:
        return
    if out != want:
        kind = "read:%s:%s" % (key[1], "raises" if out[0] == "exc" else ("changed" if want[0] == "ok" else "no_longer_raises"))
        V.append(viol(kind, "%s: read %r of %r returned %r, pristine evaluation gives %r"
                      % (where, key[1], key[0], out, want), prop=key[1]))


def _probe_new(world, variant, tab, V, where):
    """construct a further root from the (used) shared argument objects and probe it"""
    try:
        root = world.make(variant)
        parts = world.parts(root)
    except Exception as e:
        V.append(viol("new:%s:raises" % variant, "%s: constructing/partitioning a further %s from the used "
                      "arguments raised %s: %s" % (where, world.kind, type(e).__name__, e)))
        return
    want_n = tab.get(("root", "n_partitions", None))
    if want_n is not None and ("ok", repr(len(parts))) != want_n:
        V.append(viol("new:%s:partition_count" % variant, "%s: further %s has %d partitions, pristine %s"
                      % (where, world.kind, len(parts), want_n[1])))
        return
    for tag, k, p in parts:
        for n, a in [("row_order", ()), ("counts", None), ("row_labels", None), ("shape", None),
                     ("column_order", ()), ("means", None)]:
            key = ((tag, k), n, a)
            if key in tab:
                _compare(V, tab, key, do_read(p, n, a), where + " / new(%s)" % variant)


_END_CACHE = {}


def check(space, state):
    ci, start, h, tq = state
    tier = "thorough" if tq else "quick"
    tab, n_parts, pristine_digest, plist = reference(ci)
    A = alphabet(ci, tier)
    V = []
    asserted = 0
    w = World(ci)
    where = "%s/%s" % (CASES[ci].__name__, STARTS[start])
    # ---- move to the start state
    if start == 1:
        got = full_table(w)
        for key, out in got.items():
            asserted += 1
            _compare(V, tab, key, out, where + " (read everything)")
    elif start == 2:
        _probe_new(w, "same", tab, V, where)
    elif start == 3:
        # a read that fails on the pristine objects too (if the table has one)
        failing = [k for k, o in tab.items() if o[0] == "exc" and k[0] != "root"]
        if failing:
            k = failing[0]
            _compare(V, tab, k, do_read(_locate(w, k[0]), k[1], k[2]), where)
    # ---- the history
    for step, ei in enumerate(h):
        ev = A[ei]
        asserted += 1
        if ev[0] == "new":
            _probe_new(w, ev[1], tab, V, where + " step %d" % step)
            continue
        if ev[0] == "new_alt":
            want = _REF[("alt", ci)]
            got = alt_table(w, w.ts[0])
            for k2, o2 in want.items():
                if got.get(k2) != o2:
                    V.append(viol("new_alt:%s" % (k2[1] if len(k2) == 2 else k2[2]),
                                  "%s step %d: a Cube built from ANOTHER response with the same (used) transforms object "
                                  "reports %r for %r, pristine evaluation gives %r" % (where, step, got.get(k2), k2[1:], o2)))
                    break
            continue
        if ev[0] == "new_cube":
            want = _REF[("standalone", ci)]
            got = standalone_table(w, ev[1])
            for k2, o2 in want.items():
                if k2[1] != ev[1]:
                    continue
                if got.get(k2) != o2:
                    V.append(viol("new_cube:%s" % (k2[2] if len(k2) == 3 else k2[3]),
                                  "%s step %d: a Cube built on its own from the (used) response %d reports %r for %r, "
                                  "pristine evaluation gives %r" % (where, step, ev[1], got.get(k2), k2[2:], o2)))
                    break
            continue
        _, path, name, args = ev
        if name in ("partitions", "partition_sets"):
            try:
                n = len(w.parts())
                if ("ok", repr(n)) != tab.get(("root", "n_partitions", None), ("ok", repr(n))):
                    V.append(viol("read:partitions:count", "%s: %d partitions" % (where, n)))
            except Exception as e:
                V.append(viol("read:partitions:raises", "%s: partitions raised %s" % (where, type(e).__name__)))
            continue
        try:
            obj = _locate(w, path)
        except Exception as e:
            V.append(viol("locate:raises", "%s: reaching %r raised %s: %s" % (where, path, type(e).__name__, e)))
            continue
        _compare(V, tab, (path, name, args), do_read(obj, name, args), where + " step %d" % step)
    # ---- the used argument objects must still describe the same analysis
    dg = w.args_digest()
    mutated = dg != pristine_digest
    key = (ci, dg)
    if key not in _END_CACHE:
        EV = []
        try:
            fresh = w.make("same")
            got = full_table(w, fresh)
            for k2, out in got.items():
                _compare(EV, tab, k2, out, "fresh %s from used arguments" % w.kind)
            for k2 in tab:
                if k2 not in got:
                    EV.append(viol("end:missing:%s" % k2[1], "fresh object from used arguments lacks %r" % (k2,)))
        except Exception as e:
            EV.append(viol("end:raises", "rebuilding from the used arguments raised %s: %s" % (type(e).__name__, e)))
        _END_CACHE[key] = [dict(v, kind="end:" + v["kind"]) for v in EV[:6]]
    asserted += 1
    V.extend(copy.deepcopy(_END_CACHE[key]))
    return Res(V[:8], mutated, digest(ci, dg, start, tuple(sorted(set(h)))), asserted)


# =====================================================================================
# schedules: two threads reading objects that share argument dicts, under a cooperative
# scheduler.  A scheduling point is every entry of lazyproperty.__get__ that is about to
# COMPUTE a value (harness-side wrapper delegating to the original descriptor).  Stateless
# exploration with a preemption bound: schedule = (thread that starts, global point numbers
# at which the running thread is preempted).
# =====================================================================================
import threading

from cr.cube.util import lazyproperty as _lazyproperty

_ORIG_GET = _lazyproperty.__get__


class _Sched:
    def __init__(self):
        self.active = False

    def start(self, switch_at, first):
        self.switch_at = set(switch_at)
        self.counter = 0
        self.current = first
        self.go = [threading.Semaphore(0), threading.Semaphore(0)]
        self.ctrl = threading.Semaphore(0)
        self.done = [False, False]
        self.trace = []
        self.tids = {}
        self.active = True

    def point(self):
        tid = self.tids.get(threading.get_ident())
        if tid is None or not self.active:
            return
        k = self.counter
        self.counter += 1
        if k in self.switch_at and not self.done[1 - tid]:
            self.trace.append((k, tid))
            self.current = 1 - tid
            self.ctrl.release()          # hand the baton back to the controller
            self.go[tid].acquire()       # ... and wait to be resumed


SCHED = _Sched()


def _patched_get(self, obj, type=None):
    if obj is not None and SCHED.active and obj.__dict__.get(self.__name__) is None:
        SCHED.point()
    return _ORIG_GET(self, obj, type)


def run_schedule(ci, reads, first, switch_at):
    """Execute reads[0] in thread 0 and reads[1] in thread 1 on ONE world under the schedule.
    -> (results per thread, number of scheduling points, world)"""
    w = World(ci)
    results = [[], []]
    errors = []

    def body(tid):
        SCHED.tids[threading.get_ident()] = tid
        SCHED.go[tid].acquire()
        try:
            for path, name, args in reads[tid]:
                try:
                    obj = _locate(w, path)
                    results[tid].append(((path, name, args), do_read(obj, name, args)))
                except Exception as e:
                    results[tid].append(((path, name, args), ("exc", "locate:" + type(e).__name__)))
        except BaseException as e:      # pragma: no cover
            errors.append(repr(e))
        finally:
            SCHED.done[tid] = True
            SCHED.ctrl.release()

    SCHED.start(switch_at, first)
    _lazyproperty.__get__ = _patched_get
    try:
        ts = [threading.Thread(target=body, args=(i,), daemon=True) for i in (0, 1)]
        for t in ts:
            t.start()
        cur = first
        guard = 0
        while not all(SCHED.done):
            if SCHED.done[cur]:
                cur = 1 - cur
            SCHED.current = cur
            SCHED.go[cur].release()
            if not SCHED.ctrl.acquire(timeout=60):
                errors.append("scheduler timeout (deadlock?)")
                break
            cur = SCHED.current if not SCHED.done[SCHED.current] else 1 - SCHED.current
            guard += 1
            if guard > 10000:
                errors.append("scheduler livelock")
                break
        for t in ts:
            t.join(timeout=5)
    finally:
        _lazyproperty.__get__ = _ORIG_GET
        SCHED.active = False
    return results, SCHED.counter, w, errors


SCHED_CASES = [4, 5, 2, 11, 12, 13]      # 3-D cubes sharing a transforms dict, cube sets
SCHED_READS = [("counts", None), ("row_labels", None), ("row_order", ()), ("column_index", None),
               ("row_proportions", None), ("column_labels", None)]


def sched_pairs(ci):
    """pairs of single reads on two different partitions (or root + partition)"""
    tab, n_parts, _d, plist = reference(ci)
    objs = plist[:3]
    pairs = []
    for a in range(len(objs)):
        for b in range(len(objs)):
            if a == b and len(objs) > 1:
                continue
            for ra in SCHED_READS[:4]:
                for rb in SCHED_READS[:4]:
                    if (objs[a], ra[0], ra[1]) in tab and (objs[b], rb[0], rb[1]) in tab:
                        pairs.append(((objs[a], ra[0], ra[1]), (objs[b], rb[0], rb[1])))
    return pairs


def sched_spaces(bound):
    out = []
    for ci in SCHED_CASES:
        pairs = sched_pairs(ci)

        def gen(ci=ci, pairs=pairs, bound=bound):
            for pi, (ra, rb) in enumerate(pairs):
                for first in (0, 1):
                    _res, n, _w, _err = run_schedule(ci, [[ra], [rb]], first, ())
                    yield ("sched", ci, pi, first, ())
                    for k in range(n):
                        yield ("sched", ci, pi, first, (k,))
                    if bound >= 2:
                        for k in range(0, n, max(1, n // 12)):
                            for l in range(k + 1, n, max(1, n // 12)):
                                yield ("sched", ci, pi, first, (k, l))
        out.append(Space("schedules_" + CASES[ci].__name__, [(1, gen)], 2,
                         {"case": CASES[ci].__name__, "read_pairs": len(pairs), "preemption_bound": bound,
                          "scheduling_points": "every lazyproperty.__get__ about to compute"}))
    return out


def check_sched(state):
    _, ci, pi, first, switch_at = state
    tab, n_parts, pristine_digest, plist = reference(ci)
    ra, rb = sched_pairs(ci)[pi]
    V = []
    runs = []
    for rep in range(2):          # every schedule is replayed twice: observations must agree
        results, n, w, errors = run_schedule(ci, [[ra], [rb]], first, switch_at)
        runs.append((results, n, errors, w.args_digest()))
    if runs[0][0] != runs[1][0] or runs[0][1] != runs[1][1]:
        # nondeterministic harness: never believed, reported as a note only
        return Res([], False, digest("sched-nondeterministic", ci, pi), 1)
    results, n, errors, dg = runs[0]
    for e in errors:
        V.append(viol("schedule:" + e.split(" ")[0], "schedule %r: %s" % (state, e)))
    where = "%s schedule first=%d preempt_at=%r" % (CASES[ci].__name__, first, switch_at)
    for tid in (0, 1):
        for key, out in results[tid]:
            _compare(V, tab, key, out, where + " thread %d" % tid)
    V = [dict(v, kind="schedule:" + v["kind"]) if not v["kind"].startswith("schedule:") else v for v in V]
    return Res(V, bool(switch_at) and switch_at[0] < n, digest(ci, pi, first, repr(results)), 2 + len(switch_at))


def full_alphabet(ci):
    tab, n_parts, _d, plist = reference(ci)
    ev = [("r", k[0], k[1], k[2]) for k in tab if k[1] not in ("n_partitions", "partitions")]
    kind = CASES[ci]()[0]
    ev += [("new", v) for v in ("same", "json", "envelope", "json_envelope")]
    ev += [("new_alt",)] if kind == "cube" else []
    return ev


def then_read_all_spaces():
    out = []
    for ci, fn in enumerate(CASES):
        n = len(full_alphabet(ci))

        def gen(ci=ci, n=n):
            for e in range(n):
                yield ("then_all", ci, e)
        out.append(Space("then_read_all_" + fn.__name__, [(1, gen)], n,
                         {"case": fn.__name__, "first_events": n, "then": "every public read of every live object"}))
    return out


def check_then_all(state):
    _, ci, e = state
    tab, n_parts, pristine_digest, plist = reference(ci)
    ev = full_alphabet(ci)[e]
    w = World(ci)
    V = []
    where = "%s: %r then read everything" % (CASES[ci].__name__, ev)
    if ev[0] == "new":
        _probe_new(w, ev[1], tab, V, where)
    elif ev[0] == "new_alt":
        alt_table(w, w.ts[0])
    else:
        _, path, name, args = ev
        try:
            _compare(V, tab, (path, name, args), do_read(_locate(w, path), name, args), where)
        except Exception as exc:
            V.append(viol("locate:raises", "%s: %s" % (where, exc)))
    got = full_table(w)
    n = 0
    for key, out in got.items():
        n += 1
        want = tab.get(key)
        if want is not None and out != want:
            V.append(viol("order_dependence:%s" % key[1], "%s: afterwards %r of %r is %r, pristine evaluation gives %r"
                          % (where, key[1], key[0], out, want), prop=key[1]))
            if len(V) > 5:
                break
    return Res(V, True, digest("then_all", ci, repr(ev)), n)


_seq_spaces = spaces
_seq_check = check
_seq_detail = detail


def spaces(tier):          # noqa: F811
    out = _seq_spaces(tier)
    out += then_read_all_spaces()
    out += sched_spaces(1 if tier == "quick" else 2) if tier == "thorough" else sched_spaces_quick()
    return out


def sched_spaces_quick():
    """quick tier: preemption bound 1 on the two inputs whose partitions share a rewritten dict"""
    global SCHED_CASES
    keep = SCHED_CASES
    SCHED_CASES = [4, 11]
    try:
        return sched_spaces(1)
    finally:
        SCHED_CASES = keep


def check(space, state):          # noqa: F811
    if state and state[0] == "sched":
        return check_sched(state)
    if state and state[0] == "then_all":
        return check_then_all(state)
    return _seq_check(space, state)


def detail(space, state):          # noqa: F811
    if state and state[0] == "then_all":
        return {"case": CASES[state[1]].__name__, "first_event": repr(full_alphabet(state[1])[state[2]]),
                "then": "read every public output of every live object"}
    if state and state[0] == "sched":
        _, ci, pi, first, switch_at = state
        ra, rb = sched_pairs(ci)[pi]
        return {"case": CASES[ci].__name__, "thread0_reads": [repr(ra)], "thread1_reads": [repr(rb)],
                "first_thread": first, "preempt_at_points": list(switch_at)}
    return _seq_detail(space, state)
