# encoding: utf-8
"""Conformance of the environment model (tabulator) to real payloads.

1. round trip: for every repo fixture whose dimensions are all categorical (1-D, 2-D,
   3-D), a respondent-level data set is rebuilt from the fixture's own cells, tabulated
   by mc.model.tabulate, and `result.counts` / `measures.count.data` must come back
   element for element;
2. key paths: every JSON key path the library reads from a dimension dict and that a
   real fixture of the same dimension type carries must be present in the tabulator's
   output for that type;
3. type recognition: for every schema used by any property check, the library must
   classify the generated response with the intended dimension types.
"""

import glob
import importlib
import json
import os
import sys

from cr.cube.cube import Cube

from mc.model import CatVar, Schema, tabulate, dimension_dicts

FIXDIR = "/repo/tests/fixtures"

READ_PATHS = [
    "type.class", "type.categories[].id", "type.categories[].name", "type.categories[].missing",
    "type.categories[].numeric_value", "type.categories[].selected", "type.categories[].date",
    "type.elements[].id", "type.elements[].missing", "type.elements[].value",
    "type.elements[].value.id", "type.elements[].value.derived",
    "type.elements[].value.references.alias", "type.elements[].value.references.name",
    "type.subtype.class", "type.subtype.resolution", "references.alias", "references.name",
    "references.subreferences",
]


def _paths(d, prefix=""):
    out = set()
    if isinstance(d, dict):
        for k, v in d.items():
            p = "%s.%s" % (prefix, k) if prefix else k
            out.add(p)
            out |= _paths(v, p)
    elif isinstance(d, list):
        for v in d:
            out |= _paths(v, prefix + "[]")
    return out


def _result(d):
    d = d.get("value", d)
    return d.get("result")


def _is_plain_cat(dim):
    t = dim["type"]
    if t.get("class") != "categorical":
        return False
    if dim.get("references", {}).get("subreferences"):
        return False
    cats = t.get("categories", [])
    if any(c.get("selected") for c in cats):
        return False
    ids = [c["id"] for c in cats]
    return len(ids) == len(set(ids)) and len(ids) > 0


def roundtrip():
    ok = bad = skipped = 0
    msgs = []
    for fn in sorted(glob.glob(os.path.join(FIXDIR, "*.json")) + glob.glob(os.path.join(FIXDIR, "*", "*.json"))):
        try:
            with open(fn) as f:
                d = json.load(f)
            res = _result(d) if isinstance(d, dict) else None
        except Exception:
            res = None
        if not res or "dimensions" not in res or "counts" not in res:
            skipped += 1
            continue
        dims = res["dimensions"]
        if not (1 <= len(dims) <= 3) or not all(_is_plain_cat(x) for x in dims):
            skipped += 1
            continue
        meas = res.get("measures", {})
        if set(meas) - {"count"}:
            skipped += 1
            continue
        counts = res["counts"]
        wdata = meas.get("count", {}).get("data", counts)
        shape = [len(x["type"]["categories"]) for x in dims]
        n = 1
        for s in shape:
            n *= s
        if len(counts) != n or len(wdata) != n or any(isinstance(c, dict) for c in wdata) \
                or any(c != int(c) or c > 3000 for c in counts) or sum(counts) > 20000 \
                or any(c == 0 and w != 0 for c, w in zip(counts, wdata)):  # not a tabulation
            skipped += 1
            continue
        vars_ = [CatVar(x["references"].get("alias", "v%d" % i), x["type"]["categories"],
                        type_order=x["type"].get("order"))
                 for i, x in enumerate(dims)]
        if any(v.type_order is not None for v in vars_):
            skipped += 1
            continue
        sch = Schema("rt", vars_, [("cat", i) for i in range(len(vars_))], weighted=(wdata != counts))
        data = []
        idx = 0
        import itertools

        for coord in itertools.product(*[range(s) for s in shape]):
            c, w = int(counts[idx]), wdata[idx]
            idx += 1
            if c == 0:
                continue
            ans = tuple(v.cats[k]["id"] for v, k in zip(vars_, coord))
            data.extend([(ans, w / float(c), None)] * c)
        out = tabulate(sch, data)["result"]
        same_counts = out["counts"] == [int(c) for c in counts]
        same_w = all(abs(a - b) <= 1e-6 * max(1.0, abs(b)) for a, b in zip(out["measures"]["count"]["data"], wdata))
        # library view agrees as well
        try:
            a = Cube(d).counts
            b = Cube({"result": out}).counts
            same_lib = a.shape == b.shape and abs(a - b).max() < 1e-6 if a.size else True
        except Exception as e:
            same_lib = False
            msgs.append("%s: library raised %r" % (os.path.basename(fn), e))
        if same_counts and same_w and same_lib:
            ok += 1
        else:
            bad += 1
            msgs.append("round trip mismatch: %s" % os.path.relpath(fn, FIXDIR))
    return ok, bad, skipped, msgs


def _dim_kind(dim):
    from cr.cube.dimension import Dimensions

    return Dimensions.dimension_type(dim).name


def keypaths():
    """tabulator output per dimension type vs real fixtures of that type."""
    from mc import schemas as S

    gen = {}
    samples = [
        Schema("k1", [S.cat("a", 2, "last", values=[1, 2]), S.mr("m", 2)], [("cat", 0), ("mr", 1)]),
        Schema("k2", [S.ca("c", 2, 2)], [("ca_items", 0), ("ca_cats", 0)]),
        Schema("k3", [S.cat("d", 2, "last", date=True), S.enum("e", "datetime", 2)], [("cat", 0), ("enum", 1)]),
        Schema("k4", [S.enum("e", "text", 2), S.enum("f", "numeric", 2)], [("enum", 0), ("enum", 1)]),
    ]
    for sch in samples:
        dims, _ = dimension_dicts(sch)
        for dd in dims:
            gen.setdefault(_dim_kind(dd), set()).update(_paths(dd))
    real = {}
    for fn in sorted(glob.glob(os.path.join(FIXDIR, "*.json"))):
        try:
            with open(fn) as f:
                res = _result(json.load(f))
            for dd in res["dimensions"]:
                real.setdefault(_dim_kind(dd), set()).update(_paths(dd))
        except Exception:
            continue
    missing = []
    matched = 0
    for kind, rp in sorted(real.items()):
        gp = gen.get(kind)
        if gp is None:
            continue
        matched += 1
        for p in READ_PATHS:
            if p in rp and p not in gp and not (p.endswith("date") or p.endswith("selected")
                                                 or p.endswith("resolution")):
                missing.append("%s: tabulator omits %s" % (kind, p))
    return matched, missing


def recognition():
    exp_of = {"cat": ["CAT"], "enum": ["ENUM"], "mr": ["MR_SUBVAR"], "ca_items": ["CA_SUBVAR"],
              "ca_cats": ["CA_CAT"]}
    n = 0
    bad = []
    for fn in sorted(glob.glob(os.path.join(os.path.dirname(os.path.dirname(__file__)), "props", "c*.py"))):
        mod = importlib.import_module("props.%s" % os.path.basename(fn)[:-3])
        for name, sch in getattr(mod, "SCHEMAS", {}).items():
            if not isinstance(sch, Schema):
                continue
            n += 1
            cube = Cube(tabulate(sch, []))
            got = [t.name for t in cube.dimension_types]
            want = []
            if sch.numeric and sch.numeric.get("numarr"):
                want.append("NUM_ARRAY")
            for role, vi in sch.dims:
                v = sch.vars[vi]
                if role == "cat":
                    want.append("CAT_DATE" if v.is_date else "CAT")
                elif role == "enum":
                    want.append({"datetime": "DATETIME", "text": "TEXT", "numeric": "BINNED_NUMERIC"}[v.subtype])
                else:
                    want.extend(exp_of[role])
            if got != want:
                bad.append("%s/%s: library sees %s, schema intends %s" % (mod.ID, name, got, want))
    return n, bad


def main():
    ok, bad, skipped, msgs = roundtrip()
    print("selftest round-trip: %d fixtures reproduced, %d mismatched, %d not applicable" % (ok, bad, skipped))
    matched, missing = keypaths()
    print("selftest key paths: %d dimension types compared, %d omissions" % (matched, len(missing)))
    n, badrec = recognition()
    print("selftest type recognition: %d schemas, %d misclassified" % (n, len(badrec)))
    for m in msgs + missing + badrec:
        print("  " + m)
    out = {"roundtrip_ok": ok, "roundtrip_bad": bad, "roundtrip_na": skipped,
           "keypath_types": matched, "keypath_omissions": missing,
           "schemas_recognised": n, "schemas_misclassified": badrec}
    here = os.path.dirname(os.path.dirname(os.path.abspath(__file__)))
    os.makedirs(os.path.join(here, "evidence"), exist_ok=True)
    with open(os.path.join(here, "evidence", "_conformance.json"), "w") as f:
        json.dump(out, f, indent=1, sort_keys=True)
    return 1 if (bad or missing or badrec or ok < 5) else 0


if __name__ == "__main__":
    sys.exit(main())
