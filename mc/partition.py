# encoding: utf-8
"""Map a schema + data set to the oracle objects of its partitions (model side)."""

from mc.model import SEL
from mc.oracle import Axis, SliceOracle, StrandOracle, axis_for, ca_axes, numarr_axis


def _ca_item_axis(schema, vi, k):
    """Item k of a categorical array seen as a plain categorical variable."""
    var = schema.vars[vi]
    vcats = [c for c in var.cats if not c.get("missing")]
    ids = [c["id"] for c in vcats]
    vset = set(ids)
    return Axis("CA_CAT", ids, [c.get("name", "") for c in vcats],
                lambda r, j, ids=ids, vi=vi, k=k: r[0][vi][k] == ids[j],
                lambda r, j, vset=vset, vi=vi, k=k: r[0][vi][k] in vset,
                False, var)


def table_restrictions(schema, role, vi):
    """[(label, restrict_fn)] one per valid element of the table dimension."""
    var = schema.vars[vi]
    if role in ("cat", "enum"):
        ax = axis_for(schema, role, vi)
        return [(ax.labels[k], (lambda r, k=k, ax=ax: ax.member(r, k))) for k in range(len(ax))]
    if role == "mr":
        return [(it["name"], (lambda r, k=k, var=var, vi=vi: var.states(r[0][vi])[k] == SEL))
                for k, it in enumerate(var.items)]
    raise ValueError(role)


def slice_oracle(schema, dataset, rdim, cdim, restrict=None):
    (rrole, rvi), (crole, cvi) = rdim, cdim
    if rrole == "ca_items" and crole == "ca_cats" and rvi == cvi:
        items, cats = ca_axes(schema, rvi)
        return SliceOracle(items, cats, dataset, restrict, ca=("items_x_cats", schema.vars[rvi], rvi))
    if rrole == "ca_cats" and crole == "ca_items" and rvi == cvi:
        items, cats = ca_axes(schema, rvi)
        return SliceOracle(cats, items, dataset, restrict, ca=("cats_x_items", schema.vars[rvi], rvi))
    return SliceOracle(axis_for(schema, rrole, rvi), axis_for(schema, crole, cvi), dataset, restrict)


def partition_oracles(schema, dataset):
    """List of (kind, table_label, oracle) in partition order."""
    dims = list(schema.dims)
    numarr = schema.numeric.get("numarr") if schema.numeric else None
    if numarr is not None:
        rows = numarr_axis(numarr)
        if len(dims) == 0:
            return [("strand", None, StrandOracle(rows, dataset))]
        if len(dims) == 1:
            cols = axis_for(schema, *dims[0])
            return [("slice", None, SliceOracle(rows, cols, dataset))]
        if len(dims) == 2:
            # numeric array grouped by two variables: a 3-D cube, one partition per array
            # item; partition k tabulates item k's numeric value over X x Y
            out = []
            for k, it in enumerate(numarr.items):
                o = slice_oracle(schema, dataset, dims[0], dims[1])
                o.num_item = k
                out.append(("slice", it["name"], o))
            return out
        raise ValueError("numeric array with >2 grouping dimensions not modelled")
    if len(dims) == 0:
        return [("nub", None, None)]
    if len(dims) == 1:
        return [("strand", None, StrandOracle(axis_for(schema, *dims[0]), dataset))]
    if len(dims) == 2:
        return [("slice", None, slice_oracle(schema, dataset, dims[0], dims[1]))]
    if len(dims) == 3:
        (trole, tvi) = dims[0]
        if trole == "ca_items":
            # [ca_items, ca_cats, X]: partition k = (item k as categorical) x X
            assert dims[1] == ("ca_cats", tvi)
            out = []
            for k, it in enumerate(schema.vars[tvi].items):
                rows = _ca_item_axis(schema, tvi, k)
                cols = axis_for(schema, *dims[2])
                out.append(("slice", it["name"], SliceOracle(rows, cols, dataset)))
            return out
        out = []
        for label, fn in table_restrictions(schema, trole, tvi):
            out.append(("slice", label, slice_oracle(schema, dataset, dims[1], dims[2], fn)))
        return out
    raise ValueError("unsupported dimensionality")
