# encoding: utf-8
"""Shared 2-D / 1-D state spaces: schemas x data sets x small insertion configs, and the
machinery to line the library's displayed matrix up with oracle cells."""

import copy

import numpy as np

from cr.cube.cube import Cube

from mc import schemas as S
from mc.model import Schema, tabulate
from mc.oracle import Axis
from mc.partition import partition_oracles


def subtotal(name, positive, negative=None, anchor="bottom", sid=None, style="kwargs"):
    d = {"function": "subtotal", "name": name, "anchor": anchor}
    if style == "args" and not negative:
        d["args"] = list(positive)
    else:
        d["kwargs"] = {"positive": list(positive)}
        if negative:
            d["kwargs"]["negative"] = list(negative)
    if sid is not None:
        d["id"] = sid
    return d


def transforms_for(config):
    """config: {"rows": [insertion...], "cols": [...], "rows_extra": {...}, ...}"""
    t = {}
    for key, dim in (("rows", "rows_dimension"), ("cols", "columns_dimension")):
        d = {}
        if config.get(key) is not None:
            d["insertions"] = [dict(i) for i in config[key]]
        d.update(config.get(key + "_extra") or {})
        if d:
            t[dim] = d
    for k, v in (config.get("top") or {}).items():
        t[k] = v
    # the library rewrites transform dicts in place (array-id shimming): every cube gets
    # its own private copy so that no state can leak into another
    return copy.deepcopy(t)


def resolve_insertions(axis, insertions):
    """[(insertion dict, addend idxs, subtrahend idxs)] resolved against the valid
    elements; ids that are missing/stale contribute nothing, and an insertion that names
    no valid element at all is dropped (as the library does)."""
    specs = []
    for ins in insertions or []:
        pos = ins.get("kwargs", {}).get("positive") or ins.get("args", [])
        neg = ins.get("kwargs", {}).get("negative", [])
        add = [k for k, i in enumerate(axis.ids) if i in pos]
        sub = [k for k, i in enumerate(axis.ids) if i in neg]
        if not add and not sub:
            continue
        specs.append((ins, add, sub))
    return specs


def with_subtotals(orc, cfg):
    """SliceOracle extended by one merged element per subtotal of the config (addends
    only; differences are handled by the checks that own them)."""
    rs = resolve_insertions(orc.rows, cfg.get("rows"))
    cs = resolve_insertions(orc.cols, cfg.get("cols"))
    o = orc.with_groups([a for _, a, _ in rs], [a for _, a, _ in cs])
    o.row_specs, o.col_specs = rs, cs
    return o


def display_map(order, n_base, n_sub):
    """signed display order -> oracle element indexes (base k, subtotal n_base + s)."""
    out = []
    for idx in order:
        idx = int(idx)
        out.append(idx if idx >= 0 else n_base + (n_sub + idx))
    return out


class Reg:
    """Registry of named spaces: schema + profiles + configs + bounds."""

    def __init__(self):
        self.schemas = {}
        self.profiles = {}
        self.configs = {}
        self.nmax = {"quick": {}, "thorough": {}}

    def add(self, schema, weights=(1,), nums=(None,), configs=({},), quick=2, thorough=3):
        self.schemas[schema.name] = schema
        self.profiles[schema.name] = schema.profiles(weights, nums)
        self.configs[schema.name] = list(configs)
        self.nmax["quick"][schema.name] = quick
        self.nmax["thorough"][schema.name] = thorough

    def spaces(self, tier):
        from mc.engine import Space, multisets

        out = []
        for name in sorted(self.schemas):
            n = self.nmax[tier][name]
            npf = len(self.profiles[name])
            ncf = len(self.configs[name])

            def level(k, npf=npf, ncf=ncf):
                def gen():
                    for ms in multisets(npf, k):
                        for c in range(ncf):
                            yield (ms, c)
                return gen
            levels = [(k, level(k)) for k in range(0, n + 1)]
            out.append(Space(name, levels, npf,
                             {"schema": name, "profiles": npf, "configs": ncf, "max_respondents": n,
                              "dims": [r for r, _ in self.schemas[name].dims]}))
        return out

    def dataset(self, space, state):
        P = self.profiles[space]
        return [P[i] for i in state[0]]

    def config(self, space, state):
        return self.configs[space][state[1]]

    def detail(self, space, state):
        sch = self.schemas[space]
        return {"schema": space, "dims": sch.dims, "weighted": sch.weighted,
                "transforms": transforms_for(self.config(space, state)),
                "respondents": [{"answers": r[0], "weight": r[1], "num": r[2]}
                                for r in self.dataset(space, state)]}

    def build(self, space, state, **cube_kw):
        """-> (schema, data, config, cube, [(kind, label, oracle)])"""
        sch = self.schemas[space]
        data = self.dataset(space, state)
        cfg = self.config(space, state)
        resp = tabulate(sch, data)
        cube = Cube(resp, transforms=transforms_for(cfg), **cube_kw)
        oracles = partition_oracles(sch, data)
        if sch.numeric and not sch.numeric.get("numarr") and sch.numeric.get("valid_counts", True):
            # a response carrying a numeric measure with valid counts tabulates the respondents who
            # have a valid numeric answer: counts, bases and everything derived from them
            for _k, _l, o in oracles:
                if o is not None:
                    o.data = [r for r in o.data if r[2] is not None]
        return sch, data, cfg, cube, oracles


def std_pairings(reg, W=(1, 2), with_subtotals=True, sizes=None):
    """The standard 2-D/1-D family used by C02/C03/C11/C12: every count-extractor class."""
    sizes = sizes or {}
    A3 = S.cat("a", 3, "mid", values=[1, 2, 3])
    B3 = S.cat("b", 3, "first")
    A2 = S.cat("a", 2, "last")
    B2 = S.cat("b", 2, "first")
    D3 = S.cat("d", 3, "last", date=True)
    M = S.mr("m", 2)
    N_ = S.mr("n", 2)
    C = S.ca("c", 2, 3, "last")
    NA = S.numarr("na", 2)
    rsub = [subtotal("r12", [1, 2], anchor=2, sid=1)]
    csub = [subtotal("c23", [2, 3], anchor="top", sid=1)]
    both = [{}, {"rows": rsub}, {"cols": csub}, {"rows": rsub, "cols": csub}] if with_subtotals else [{}]
    ronly = [{}, {"rows": rsub}] if with_subtotals else [{}]
    conly = [{}, {"cols": csub}] if with_subtotals else [{}]
    q = lambda name, d: sizes.get(name, d)  # noqa: E731
    reg.add(S.schema2("cat3_x_cat3", A3, B3, weighted=True), W, configs=both, quick=q("cat3_x_cat3", 2), thorough=3)
    reg.add(S.schema2("cat2_x_cat2_unw", A2, B2), configs=[{}], quick=4, thorough=5)
    reg.add(S.schema2("catdate3_x_cat2", D3, B2, weighted=True), W, configs=ronly, quick=2, thorough=3)
    reg.add(S.schema2("cat3_x_mr", A3, M, weighted=True), W, configs=ronly, quick=2, thorough=3)
    reg.add(S.schema2("mr_x_cat3", M, B3, weighted=True), W, configs=conly, quick=2, thorough=3)
    reg.add(S.schema2("mr_x_mr", M, N_, weighted=True), W, configs=[{}], quick=2, thorough=2)
    reg.add(S.schema2("mr_x_mr_unw", M, N_), configs=[{}], quick=2, thorough=3)
    reg.add(Schema("ca_items_x_cats", [C], [("ca_items", 0), ("ca_cats", 0)], weighted=True), W,
            configs=conly, quick=2, thorough=2)
    reg.add(Schema("ca_cats_x_items", [C], [("ca_cats", 0), ("ca_items", 0)], weighted=True), W,
            configs=ronly, quick=2, thorough=2)
    # enum and categorical-date dimensions against CAT and MR
    reg.add(S.schema2("datetime_x_cat3", S.enum("e", "datetime", 2, missing_first=True), B3, weighted=True), W,
            configs=conly, quick=2, thorough=3)
    reg.add(S.schema2("cat3_x_text", A3, S.enum("e", "text", 2)), configs=ronly, quick=2, thorough=3)
    reg.add(S.schema2("catdate3_x_mr", D3, M), configs=ronly, quick=2, thorough=2)
    reg.add(S.schema2("mr_x_catdate3", M, D3), configs=conly, quick=2, thorough=2)
    # numeric arrays: rows = array items (counts are the valid counts of each item)
    NAV = (None, (1, None), (None, 3), (1, 3))
    num = {"measures": ["mean"], "numarr": NA}
    reg.add(Schema("numarr_x_cat3", [B3], [("cat", 0)], numeric=dict(num)), (1,), NAV, configs=conly, quick=2, thorough=3)
    reg.add(Schema("numarr_x_mr", [M], [("mr", 0)], numeric=dict(num)), (1,), NAV, configs=[{}], quick=2, thorough=2)
    # responses carrying a numeric mean with weighted and unweighted valid counts
    nm = {"measures": ["mean"], "valid_counts": True}
    reg.add(S.schema2("num_cat3_x_cat2_w", A3, B2, weighted=True, numeric=dict(nm)), W, (None, 1), configs=ronly,
            quick=2, thorough=3)
    reg.add(S.schema2("num_mr_x_cat2_w", M, B2, weighted=True, numeric=dict(nm)), W, (None, 1), configs=[{}],
            quick=2, thorough=2)
    reg.add(Schema("num_cat3_1d_w", [A3], [("cat", 0)], weighted=True, numeric=dict(nm)), W, (None, 1), configs=ronly,
            quick=3, thorough=4)
    # fractional weights (weighted bases between 0 and 1) on the two count-extractor families with per-cell bases
    reg.add(S.schema2("fracw_cat2_x_cat2", A2, B2, weighted=True), (0.25, 0.5), configs=[{}], quick=3, thorough=4)
    reg.add(S.schema2("fracw_mr_x_cat2", M, B2, weighted=True), (0.25, 0.5), configs=[{}], quick=2, thorough=2)
    reg.add(Schema("cat3_1d", [A3], [("cat", 0)], weighted=True), W, configs=ronly, quick=4, thorough=5)
    reg.add(Schema("catdate3_1d", [D3], [("cat", 0)], weighted=True), W, configs=ronly, quick=3, thorough=4)
    reg.add(Schema("mr3_1d", [S.mr("n", 3)], [("mr", 0)], weighted=True), W, configs=[{}], quick=2, thorough=3)
    return reg


SCALES = (-40, 30)      # weights multiplied by 2**e: exact in binary floating point


def scaled_parts(sch, data, cfg, e, **cube_kw):
    """partitions of the same survey with every weight multiplied by 2**e (only meaningful for weighted schemas)"""
    from cr.cube.cube import Cube
    from mc.model import tabulate
    k = 2.0 ** e
    d2 = [(a, w * k, x) for a, w, x in data]
    return Cube(tabulate(sch, d2), transforms=transforms_for(cfg), **cube_kw).partitions


def scale_invariant(V, names, part, spart, e, power=0.0, tag=""):
    """outputs `names` of the weight-scaled partition must equal those of `part` times (2**e)**power - bit for bit
    apart from NaN == NaN (scaling by a power of two commutes with every rounding in a ratio)"""
    import numpy as np
    from mc.compare import first_diff
    from mc.engine import viol
    n = 0
    f = (2.0 ** e) ** power
    for nm in names:
        a = np.asarray(getattr(part, nm), dtype=float)
        b = np.asarray(getattr(spart, nm), dtype=float)
        n += 1
        d = first_diff(b, (a * f).tolist(), 1e-12, 0.0)
        if d is not None:
            V.append(viol("weight_scale:%s%s" % (nm, tag), "%s with all weights x 2^%d at %s: %r, unscaled run%s gives %r"
                          % (nm, e, d[0], d[1], (" x 2^%g" % (e * power)) if power else "", d[2]), output=nm))
    return n


def reverse_read(V, fresh, expected, tag=""):
    """Order-of-reads guard. `fresh` is an untouched partition of an identical cube, `expected` maps output
    name -> the oracle value the forward reading was compared with. The outputs are read in REVERSE order,
    each value copied at the moment it is read, then read once more in forward order; every copy must
    equal the oracle value too. Returns the number of comparisons."""
    import numpy as np
    from mc.compare import first_diff
    from mc.engine import viol
    names = list(expected)
    k = 0
    for phase, seq in (("reverse", list(reversed(names))), ("again", names)):
        snap = {n: np.array(getattr(fresh, n), dtype=float, copy=True) for n in seq}
        for n in seq:
            k += 1
            d = first_diff(snap[n], expected[n])
            if d is not None:
                V.append(viol("read_order:%s%s" % (n, tag), "%s read in %s order differs at %s: %r, oracle %r"
                              % (n, phase, d[0], d[1], d[2]), output=n))
    return k


def expected_display(part, orc, cellfn):
    """Matrix in the library's reported display order of cellfn(i, j) over oracle element
    indexes (base + merged-subtotal elements); `orc` from with_subtotals()."""
    ro = display_map(part.row_order(), orc.n_base_rows, len(orc.row_specs))
    co = display_map(part.column_order(), orc.n_base_cols, len(orc.col_specs))
    return [[cellfn(i, j) for j in co] for i in ro]


class SignedSlice:
    """Oracle view of a slice whose elements are signed groups of base elements:
    a base element k is ([k], []), a subtotal is (addends, subtrahends).

    sign(r, I, J) -> (s_row, valid_row, s_col, valid_col) with s in {+1, -1, 0}: +1 for a
    member of an addend, -1 for a member of a subtrahend, 0 otherwise.
    """

    def __init__(self, orc, cfg):
        self.orc = orc
        self.row_specs = resolve_insertions(orc.rows, cfg.get("rows"))
        self.col_specs = resolve_insertions(orc.cols, cfg.get("cols"))
        self.rows = [([k], []) for k in range(len(orc.rows))] + [(a, s) for _, a, s in self.row_specs]
        self.cols = [([k], []) for k in range(len(orc.cols))] + [(a, s) for _, a, s in self.col_specs]
        self.n_base_rows = len(orc.rows)
        self.n_base_cols = len(orc.cols)
        self.data = orc.data

    def overlapping(self, I, J):
        (ra, rs), (ca, cs) = self.rows[I], self.cols[J]
        return bool(set(ra) & set(rs)) or bool(set(ca) & set(cs))

    def is_diff_row(self, I):
        return bool(self.rows[I][1])

    def is_diff_col(self, J):
        return bool(self.cols[J][1])

    def sign(self, r, I, J):
        (ra, rs), (ca, cs) = self.rows[I], self.cols[J]
        rall, call = ra + rs, ca + cs
        bp = self.orc._base_preds
        sr = 1 if any(bp(r, a, b)[0] for a in ra for b in call) else (
            -1 if any(bp(r, a, b)[0] for a in rs for b in call) else 0)
        sc = 1 if any(bp(r, a, b)[2] for a in rall for b in ca) else (
            -1 if any(bp(r, a, b)[2] for a in rall for b in cs) else 0)
        vr = any(bp(r, a, b)[1] for a in rall for b in call)
        vc = any(bp(r, a, b)[3] for a in rall for b in call)
        return sr, vr, sc, vc

    def display(self, part):
        ro = display_map(part.row_order(), self.n_base_rows, len(self.row_specs))
        co = display_map(part.column_order(), self.n_base_cols, len(self.col_specs))
        return ro, co
