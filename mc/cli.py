# encoding: utf-8
"""Command line: ./check <ID> [--tier quick|thorough] [--replay PATH] | --selftest"""

import argparse
import os
import sys

ROOT = os.path.dirname(os.path.dirname(os.path.abspath(__file__)))
sys.path.insert(0, ROOT)


def _assert_repo():
    """The checks must run the library from /repo's working tree (or CRCUBE_SRC)."""
    src = os.environ.get("CRCUBE_SRC")
    if src:
        # the venv's namespace-package .pth pins cr.__path__ to /repo/src/cr: put the
        # alternative tree (mutation demos only) in front of it
        sys.path.insert(0, src)
        import cr

        cr.__path__.insert(0, os.path.join(src, "cr"))
    import cr.cube

    path = os.path.realpath(list(cr.cube.__path__)[0])
    want = os.path.realpath(src or "/repo/src")
    if not path.startswith(want):
        print("ERROR: cr.cube imported from %s, expected under %s" % (path, want))
        sys.exit(2)


def main():
    ap = argparse.ArgumentParser()
    ap.add_argument("prop", nargs="?")
    ap.add_argument("--tier", default=os.environ.get("VERIF_TIER", "quick"))
    ap.add_argument("--replay")
    ap.add_argument("--selftest", action="store_true")
    ap.add_argument("--workers", type=int, default=None)
    a = ap.parse_args()
    _assert_repo()
    try:
        seed = int(os.environ.get("VERIF_SEED", "0"))
    except ValueError:
        seed = 0
    if a.selftest:
        from mc import selftest

        sys.exit(selftest.main())
    if not a.prop:
        ap.error("property id required")
    from mc import engine

    if a.replay:
        sys.exit(engine.replay(a.prop.upper(), a.replay))
    tier = a.tier if a.tier in ("quick", "thorough") else "quick"
    sys.exit(engine.run_property(a.prop.upper(), tier, seed, a.workers))


if __name__ == "__main__":
    main()
