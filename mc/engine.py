# encoding: utf-8
"""Explicit-state exploration engine, violation handling, evidence writing.

A property module (props/cXX.py) provides

    ID                      "C01"
    spaces(tier)         -> list of Space
    check(space, state)  -> Res            (runs the REAL library in that state)
    detail(space, state) -> JSON-able, human readable form of the state

A *state* is a JSON-able tuple (profile indexes of the respondents that joined so far,
configuration knobs, read histories ...).  Spaces enumerate every state of a bounded
space level by level (BFS order: fewest respondents / knobs first), canonical forms
only, so the first counterexample of a kind is also a smallest one.
"""

import hashlib
import importlib
import itertools
import json
import multiprocessing as mp
import os
import sys
import time
import traceback

ROOT = os.path.dirname(os.path.dirname(os.path.abspath(__file__)))
# scratch runs (a seeded change applied to a scratch worktree named by CRCUBE_SRC) write their evidence and
# replay files under VERIF_OUT instead of /verif, so that they never touch the evidence of the registered checks
OUT = os.environ.get("VERIF_OUT") or ROOT


class Space:
    """One bounded state space.

    name        : str
    levels      : list of (depth, iterable-factory) - states grouped by BFS depth
    fanout      : number of enabled events in every state below the last level
                  (used for the transition count); or callable(depth)->int
    bounds      : dict describing alphabet and bound (goes to evidence)
    """

    def __init__(self, name, levels, fanout, bounds, group=None):
        self.name = name
        self.levels = levels
        self.fanout = fanout
        self.bounds = bounds
        self.group = group or name


class Res:
    """Result of checking one state."""

    __slots__ = ("violations", "nontrivial", "outcome", "asserted")

    def __init__(self, violations=None, nontrivial=False, outcome=None, asserted=0):
        self.violations = violations or []
        self.nontrivial = nontrivial
        self.outcome = outcome
        self.asserted = asserted


def viol(kind, message, **fields):
    d = {"kind": kind, "message": message}
    d.update(fields)
    return d


def digest(*parts):
    h = hashlib.blake2b(digest_size=8)
    for p in parts:
        if isinstance(p, bytes):
            h.update(p)
        else:
            h.update(repr(p).encode())
    return h.digest()


def multisets(n, k):
    """All canonical (non-decreasing) index tuples of size k over range(n)."""
    return itertools.combinations_with_replacement(range(n), k)


def dataset_levels(n_profiles, max_n, min_n=0):
    return [(k, (lambda k=k: multisets(n_profiles, k))) for k in range(min_n, max_n + 1)]


# ----------------------------------------------------------------------------------
# worker side
# ----------------------------------------------------------------------------------

_MOD = None


def _init_worker(modname):
    global _MOD
    _MOD = importlib.import_module(modname)
    import warnings

    warnings.simplefilter("ignore")


def _work(args):
    space_name, base_index, states = args
    n = nontriv = asserted = 0
    outcomes = set()
    ntv_outcomes = set()
    viols = []
    for off, st in enumerate(states):
        try:
            res = _MOD.check(space_name, st)
        except Exception as e:  # a crash of the harness/library in a state is a finding
            res = Res([viol("exception:%s" % type(e).__name__,
                            "unexpected %s: %s" % (type(e).__name__, e),
                            trace=traceback.format_exc()[-1500:])], False, None)
        n += 1
        asserted += res.asserted
        if res.outcome is not None:
            outcomes.add(res.outcome)
            if res.nontrivial:
                ntv_outcomes.add(res.outcome)
        if res.nontrivial:
            nontriv += 1
        for v in res.violations:
            if len(viols) < 200:
                viols.append((base_index + off, st, v))
    return n, nontriv, outcomes, ntv_outcomes, viols, asserted


def _chunks(it, size):
    buf = []
    for x in it:
        buf.append(x)
        if len(buf) >= size:
            yield buf
            buf = []
    if buf:
        yield buf


class Stats:
    def __init__(self):
        self.states = 0
        self.transitions = 0
        self.nontrivial = 0
        self.asserted = 0
        self.outcomes = set()
        self.ntv_outcomes = set()
        self.per_space = {}
        self.violations = []  # (space, index, state, viol)
        self.caps_hit = []
        self.max_depth = 0


def explore(modname, spaces, workers=None, chunk=400, stats=None, deadline=None):
    """Run every state of every space through module.check, in parallel."""
    stats = stats or Stats()
    workers = workers or min(16, os.cpu_count() or 1)
    ctx = mp.get_context("fork")
    mod = importlib.import_module(modname)
    with ctx.Pool(workers, initializer=_init_worker, initargs=(modname,)) as pool:
        for sp in spaces:
            t0 = time.time()
            s_states = s_trans = s_ntv = 0
            s_out = set()
            last_depth = sp.levels[-1][0] if sp.levels else 0

            level_counts = {}

            def gen():
                idx = 0
                for depth, factory in sp.levels:
                    cnt = 0
                    for ch in _chunks(factory(), chunk):
                        yield (sp.name, idx, ch)
                        idx += len(ch)
                        cnt += len(ch)
                    level_counts[depth] = level_counts.get(depth, 0) + cnt

            capped = False
            for n, nontriv, outcomes, ntv_out, viols, asserted in pool.imap_unordered(
                    _work, gen()):
                s_states += n
                s_ntv += nontriv
                s_out |= outcomes
                stats.ntv_outcomes |= {(sp.group, o) for o in ntv_out}
                stats.asserted += asserted
                for (i, st, v) in viols:
                    stats.violations.append((sp.name, i, st, v))
                if deadline and time.time() > deadline:
                    stats.caps_hit.append("time cap hit in space %s" % sp.name)
                    capped = True
                    break
            # transitions: every state below the last level has `fanout` enabled events,
            # each leading to a state of the next level (merged by canonical form); a
            # single-level space counts one event per state (the event that produced it)
            for depth, cnt in level_counts.items():
                fo = sp.fanout(depth) if callable(sp.fanout) else sp.fanout
                if len(sp.levels) == 1:
                    s_trans += cnt
                elif depth != last_depth:
                    s_trans += cnt * fo
            if capped:
                break
            stats.states += s_states
            stats.transitions += s_trans
            stats.nontrivial += s_ntv
            stats.outcomes |= {(sp.group, o) for o in s_out}
            stats.max_depth = max(stats.max_depth, last_depth)
            stats.per_space[sp.name] = {
                "states": s_states, "transitions": s_trans, "nontrivial_states": s_ntv,
                "distinct_outcomes": len(s_out), "bounds": sp.bounds,
                "wall_s": round(time.time() - t0, 2)}
    return stats


# ----------------------------------------------------------------------------------
# known findings
# ----------------------------------------------------------------------------------


def load_known_findings(prop_id):
    path = os.path.join(ROOT, "known_findings.json")
    if not os.path.exists(path):
        return []
    with open(path) as f:
        data = json.load(f)
    return [e for e in data.get("findings", []) if e.get("property") == prop_id]


def match_finding(entries, v):
    """Return the open known-finding entry matching violation dict `v`, else None.

    An entry matches when its status is "open" and every key of entry["match"] equals the
    violation's field of that name (the violation "kind" is built by the check from the
    output name, the block and a cause predicate, so one entry names one defect).
    """
    for e in entries:
        if e.get("status") != "open":
            continue
        m = e.get("match", {})
        if all(v.get(k) == val for k, val in m.items()):
            return e
    return None


# ----------------------------------------------------------------------------------
# run one property
# ----------------------------------------------------------------------------------


def _jsonable(x):
    if isinstance(x, (list, tuple)):
        return [_jsonable(i) for i in x]
    if isinstance(x, dict):
        return {str(k): _jsonable(v) for k, v in x.items()}
    if isinstance(x, float):
        if x != x:
            return "NaN"
        if x in (float("inf"), float("-inf")):
            return "inf" if x > 0 else "-inf"
        return x
    if isinstance(x, (int, str, bool)) or x is None:
        return x
    try:
        import numpy as np

        if isinstance(x, np.ndarray):
            return _jsonable(x.tolist())
        if isinstance(x, np.generic):
            return _jsonable(x.item())
    except Exception:
        pass
    return repr(x)


def _tuplify(x):
    if isinstance(x, list):
        return tuple(_tuplify(i) for i in x)
    return x


def run_property(prop_id, tier, seed, workers=None):
    modname = "props.%s" % prop_id.lower()
    mod = importlib.import_module(modname)
    t0 = time.time()
    spaces = mod.spaces(tier)
    # VERIF_SEED only permutes the order in which spaces are explored
    import random

    rnd = random.Random(seed)
    order = list(range(len(spaces)))
    rnd.shuffle(order)
    spaces = [spaces[i] for i in order]
    stats = explore(modname, spaces, workers=workers, chunk=getattr(mod, "CHUNK", 400))
    if hasattr(mod, "post"):
        mod.post(tier, stats)

    known = load_known_findings(prop_id)
    # one report per distinct kind: the smallest state (BFS index) exhibiting it
    by_kind = {}
    for space, idx, st, v in stats.violations:
        key = (v["kind"],)
        cur = by_kind.get(key)
        rank = (len(json.dumps(_jsonable(st))), idx)
        if cur is None or rank < cur[0]:
            by_kind[key] = (rank, space, st, v)

    new_violations = []
    known_hits = []
    rep_dir = os.path.join(OUT, "replays", prop_id)
    for key, (rank, space, st, v) in sorted(by_kind.items(), key=lambda kv: kv[0]):
        # reproduce twice in this (fresh) process before believing it
        again = []
        for _ in range(2):
            try:
                r = mod.check(space, _tuplify(_jsonable(st)) if False else st)
                again.append(sorted(x["kind"] for x in r.violations))
            except Exception as e:
                again.append(["exception:%s" % type(e).__name__])
        reproduced = all(v["kind"] in a for a in again)
        entry = match_finding(known, v)
        rec = {"property": prop_id, "space": space, "state": _jsonable(st),
               "detail": _jsonable(mod.detail(space, st)), "violation": _jsonable(v),
               "reproduced_twice": reproduced}
        os.makedirs(rep_dir, exist_ok=True)
        fn = os.path.join(rep_dir, "%s.json" % hashlib.sha1(
            json.dumps([space, rec["state"], v["kind"]], sort_keys=True).encode()).hexdigest()[:12])
        with open(fn, "w") as f:
            json.dump(rec, f, indent=1, sort_keys=True)
        if not reproduced:
            # non-deterministic: never report, but say so
            print("NOTE: property=%s kind=%s did not reproduce on replay; not reported"
                  % (prop_id, v["kind"]))
            continue
        if entry is not None:
            known_hits.append((entry, v, fn))
        else:
            new_violations.append((v, fn))

    for entry, v, fn in known_hits:
        print("KNOWN-FINDING: property=%s %s [%s] replay=%s" % (
            prop_id, entry.get("description", v["message"]), v["kind"], os.path.relpath(fn, OUT)))
    for v, fn in new_violations:
        print("VIOLATION property=%s replay=%s" % (prop_id, os.path.relpath(fn, OUT)))
        print("  kind=%s :: %s" % (v["kind"], v["message"]))

    wall = time.time() - t0
    samples = []
    for sp in spaces[:4]:
        for depth, factory in sp.levels[-1:]:
            for st in itertools.islice(factory(), 1):
                samples.append({"space": sp.name, "state": _jsonable(st),
                                "detail": _jsonable(mod.detail(sp.name, st))})
    ev = {
        "property_id": prop_id,
        "tier": tier,
        "seed": seed,
        "level": "model_checking",
        "coverage": {
            "states": stats.states,
            "transitions": stats.transitions,
            "traces_validated_against_impl": stats.states,
            "samples": samples,
            "exhaustive": not stats.caps_hit,
            "caps_hit": stats.caps_hit,
            "max_depth": stats.max_depth,
            "evaluations": stats.states,
            "assertions_evaluated": stats.asserted,
            "distinct_outcomes": len(stats.outcomes),
            "nontrivial_states": stats.nontrivial,
            "distinct_nontrivial": len(stats.ntv_outcomes),
            "rule": getattr(mod, "RULE", ""),
            "per_space": stats.per_space,
            "known_findings_hit": [e.get("id") for e, _, _ in known_hits],
            "explanation": getattr(mod, "EXPLANATION", ""),
            "trusted_base": getattr(mod, "TRUSTED", []),
        },
        "assumptions": getattr(mod, "ASSUMPTIONS", []),
        "wall_s": round(wall, 2),
        "violations": len(new_violations),
    }
    os.makedirs(os.path.join(OUT, "evidence"), exist_ok=True)
    with open(os.path.join(OUT, "evidence", "%s.json" % prop_id), "w") as f:
        json.dump(ev, f, indent=1, sort_keys=True)
    # the latest run of EACH tier is kept as well (evidence/<id>.json is whichever ran last)
    os.makedirs(os.path.join(OUT, "evidence", "by_tier"), exist_ok=True)
    with open(os.path.join(OUT, "evidence", "by_tier", "%s.%s.json" % (prop_id, tier)), "w") as f:
        json.dump(ev, f, indent=1, sort_keys=True)
    print("%s tier=%s states=%d transitions=%d nontrivial=%d distinct_outcomes=%d "
          "assertions=%d violations=%d known=%d wall=%.1fs%s" % (
              prop_id, tier, stats.states, stats.transitions, stats.nontrivial,
              len(stats.outcomes), stats.asserted, len(new_violations), len(known_hits), wall,
              " CAPS:%s" % stats.caps_hit if stats.caps_hit else ""))
    return 1 if new_violations else 0


def replay(prop_id, path):
    modname = "props.%s" % prop_id.lower()
    mod = importlib.import_module(modname)
    with open(path) as f:
        rec = json.load(f)
    st = _tuplify(rec["state"])
    if hasattr(mod, "state_from_json"):
        st = mod.state_from_json(rec["space"], rec["state"])
    res = mod.check(rec["space"], st)
    want = rec["violation"]["kind"]
    kinds = [v["kind"] for v in res.violations]
    print(json.dumps(_jsonable(mod.detail(rec["space"], st)), indent=1)[:3000])
    for v in res.violations:
        print("  violation kind=%s :: %s" % (v["kind"], v["message"]))
    if want in kinds:
        print("REPLAY: reproduced %s" % want)
        return 1
    print("REPLAY: not reproduced (%s)" % want)
    return 0
