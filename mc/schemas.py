# encoding: utf-8
"""Stock variables and schema builders shared by the property checks."""

from mc.model import CatVar, EnumVar, MRVar, CAVar, NumArrVar, Schema


def cat(alias, n_valid=2, missing_at="last", values=None, date=False, ids=None,
        view_insertions=None, extra_missing=0, names=None):
    """Categorical with `n_valid` valid categories and one missing category placed
    first / mid / last in the payload (missing_at=None -> no missing category)."""
    ids = ids or list(range(1, n_valid + 1))
    cats = []
    for k, i in enumerate(ids):
        c = {"id": i, "name": (names[k] if names else "%s%d" % (alias, i)),
             "numeric_value": (values[k] if values else None)}
        if date:
            c["date"] = "2020-%02d" % (k + 1)
        cats.append(c)
    miss = {"id": -1, "name": "No Data", "missing": True, "numeric_value": None}
    if missing_at == "first":
        cats = [miss] + cats
    elif missing_at == "mid":
        cats = cats[:1] + [miss] + cats[1:]
    elif missing_at == "last":
        cats = cats + [miss]
    for k in range(extra_missing):
        cats.append({"id": 90 + k, "name": "skip%d" % k, "missing": True, "numeric_value": None})
    return CatVar(alias, cats, view_insertions=view_insertions)


def enum(alias, subtype, n=2, missing_first=False, has_missing=True):
    if subtype == "datetime":
        els = [(i, "2020-01-%02d" % (i + 1)) for i in range(n)]
    elif subtype == "text":
        els = [(i, "t%d" % i) for i in range(n)]
    else:
        els = [(i, [10 * i, 10 * i + 10]) for i in range(n)]
    return EnumVar(alias, subtype, els, has_missing=has_missing, missing_first=missing_first)


def mr(alias, n=2, id_scheme="1..n", derived=None):
    items = []
    for k in range(n):
        eid = {"1..n": k + 1, "0..n-1": k, "10s": 10 * (k + 1)}[id_scheme]
        items.append({"eid": eid, "sid": "%04d" % (k + 1), "alias": "%s_%d" % (alias, k + 1),
                      "name": "%s item %d" % (alias, k + 1)})
    if derived:
        for d in derived:
            items.insert(d["pos"], {
                "eid": d.get("eid", 100 + d["pos"]), "sid": d["name"], "alias": d["alias"],
                "name": d["name"], "derived": True, "anchor": d.get("anchor"),
                "members_alias": d["members"]})
        # resolve member positions after insertion
        pos = {it["alias"]: p for p, it in enumerate(items)}
        for it in items:
            if it.get("derived"):
                it["members"] = tuple(pos[a] for a in it.pop("members_alias"))
        # element ids of a payload are positional
        if id_scheme == "1..n":
            for p, it in enumerate(items):
                it["eid"] = p + 1
        elif id_scheme == "0..n-1":
            for p, it in enumerate(items):
                it["eid"] = p
    return MRVar(alias, items)


def ca(alias, n_items=2, n_valid=2, missing_at="last", values=None):
    items = [{"eid": k + 1, "sid": "%04d" % (k + 1), "alias": "%s_%d" % (alias, k + 1),
              "name": "%s item %d" % (alias, k + 1)} for k in range(n_items)]
    cats = cat(alias, n_valid, missing_at, values=values).cats
    return CAVar(alias, items, cats)


def numarr(alias, n=2):
    return NumArrVar(alias, [{"alias": "%s_%d" % (alias, k + 1), "name": "%s item %d" % (alias, k + 1),
                              "sid": "S%d" % (k + 1)} for k in range(n)])


def schema2(name, rv, cv, **kw):
    """2-D schema rows-var x cols-var for independent (CAT/ENUM/MR) variables."""
    def role(v):
        return {"CAT": "cat", "ENUM": "enum", "MR": "mr"}[v.kind]
    return Schema(name, [rv, cv], [(role(rv), 0), (role(cv), 1)], **kw)
