# encoding: utf-8
"""Comparators: NaN == NaN, inf only equals the same inf, rel 1e-9 / abs 1e-12."""

import math

import numpy as np

RTOL = 1e-9
ATOL = 1e-12


def num_eq(a, b, rtol=RTOL, atol=ATOL):
    if a is None or b is None:
        return a is None and b is None
    try:
        a = float(a)
        b = float(b)
    except (TypeError, ValueError):
        return a == b
    if math.isnan(a) or math.isnan(b):
        return math.isnan(a) and math.isnan(b)
    if math.isinf(a) or math.isinf(b):
        return a == b
    return abs(a - b) <= atol + rtol * max(abs(a), abs(b))


def to_list(x):
    if isinstance(x, np.ndarray):
        return x.tolist()
    if isinstance(x, tuple):
        return [to_list(i) for i in x]
    if isinstance(x, list):
        return [to_list(i) for i in x]
    if isinstance(x, np.generic):
        return x.item()
    return x


def shape_of(x):
    x = to_list(x)
    s = []
    while isinstance(x, list):
        s.append(len(x))
        if not x:
            break
        x = x[0]
    return tuple(s)


def first_diff(obs, exp, rtol=RTOL, atol=ATOL, path=()):
    """None when equal, else (path, observed, expected) of the first differing cell."""
    obs = to_list(obs)
    exp = to_list(exp)
    if isinstance(exp, list) or isinstance(obs, list):
        if not (isinstance(exp, list) and isinstance(obs, list)):
            return (path, obs, exp)
        if len(obs) != len(exp):
            return (path + ("len",), len(obs), len(exp))
        for i, (o, e) in enumerate(zip(obs, exp)):
            d = first_diff(o, e, rtol, atol, path + (i,))
            if d is not None:
                return d
        return None
    if exp is SKIP:
        return None
    return None if num_eq(obs, exp, rtol, atol) else (path, obs, exp)


class _Skip:
    def __repr__(self):
        return "SKIP"


SKIP = _Skip()  # an unasserted cell in an expected array


def isnan(x):
    try:
        return math.isnan(float(x))
    except (TypeError, ValueError):
        return False


def arr_bytes(*arrays):
    """Stable bytes of arrays for outcome hashing."""
    out = []
    for a in arrays:
        if a is None:
            out.append(b"None")
        elif isinstance(a, np.ndarray) and a.dtype != object:
            out.append(np.ascontiguousarray(np.round(a.astype(float), 9)).tobytes())
        else:
            out.append(repr(to_list(a)).encode())
    return b"|".join(out)
