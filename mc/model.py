# encoding: utf-8
"""World model (variables, respondents) and the environment model (tabulator).

The tabulator produces what a Crunch server would send for a cube query over a
respondent-level data set.  It is a plain loop over respondents; nothing in it is
shared with the oracle (mc/oracle.py) except the variable definitions below.

A *respondent* is a tuple ``(answers, weight, num)``:
  answers : tuple with one answer per variable of the schema (see each Var)
  weight  : number
  num     : numeric answer to the measured numeric variable (None = missing); for a
            numeric-array measure a tuple with one entry per array item
"""

import itertools
import json
import math

SEL, OTH, MIS = 1, 0, -1  # MR item states (also the MR_CAT category ids)


# ----------------------------------------------------------------------------------
# variables
# ----------------------------------------------------------------------------------


class CatVar:
    """Categorical variable (also CAT_DATE when categories carry a date).

    cats: list of dicts {id, name, missing(bool), numeric_value, [date]} in payload order
    answer: a category id
    """

    kind = "CAT"

    def __init__(self, alias, cats, name=None, view_insertions=None, description=None,
                 type_order=None):
        self.alias = alias
        self.name = alias if name is None else name
        self.cats = [dict(c) for c in cats]
        self.view_insertions = view_insertions
        self.description = description
        self.type_order = type_order

    @property
    def is_date(self):
        return any("date" in c for c in self.cats)

    @property
    def valid_ids(self):
        return [c["id"] for c in self.cats if not c.get("missing")]

    @property
    def all_ids(self):
        return [c["id"] for c in self.cats]

    def answers(self):
        return list(self.all_ids)

    def spec(self):
        return {"kind": "CAT", "alias": self.alias, "cats": self.cats,
                "view_insertions": self.view_insertions}


class EnumVar:
    """datetime / text / binned-numeric enum dimension.

    elements: list of (id, value); a trailing missing element {"?": -1} is added when
    has_missing. answer: an element id (missing id = ``missing_id``).
    """

    kind = "ENUM"

    def __init__(self, alias, subtype, elements, has_missing=True, name=None,
                 resolution="D", missing_first=False):
        self.alias = alias
        self.name = alias if name is None else name
        self.subtype = subtype  # "datetime" | "text" | "numeric"
        self.elements = list(elements)
        self.has_missing = has_missing
        self.resolution = resolution
        self.missing_first = missing_first
        ids = [e[0] for e in self.elements]
        self.missing_id = (max(ids) + 1) if ids else 0

    @property
    def valid_ids(self):
        return [e[0] for e in self.elements]

    @property
    def all_ids(self):
        ids = self.valid_ids
        if self.has_missing:
            return [self.missing_id] + ids if self.missing_first else ids + [self.missing_id]
        return ids

    def answers(self):
        return list(self.all_ids)


class MRVar:
    """Multiple-response variable.

    items: list of dicts {eid, sid, alias, name, derived(bool), members(tuple of item
    positions, for derived), anchor}.  answer: tuple of state (SEL/OTH/MIS) per
    *non-derived* item, in item order; derived states are computed.
    """

    kind = "MR"

    def __init__(self, alias, items, name=None, view_insertions=None):
        self.alias = alias
        self.name = alias if name is None else name
        self.items = [dict(i) for i in items]
        self.view_insertions = view_insertions
        for it in self.items:
            it.setdefault("derived", False)
            it.setdefault("name", it["alias"])

    @property
    def base_positions(self):
        return [i for i, it in enumerate(self.items) if not it["derived"]]

    def answers(self):
        n = len(self.base_positions)
        return list(itertools.product((SEL, OTH, MIS), repeat=n))

    def states(self, answer):
        """Full state tuple (one per item incl. derived) from an answer."""
        base = dict(zip(self.base_positions, answer))
        out = []
        for i, it in enumerate(self.items):
            if not it["derived"]:
                out.append(base[i])
            else:
                ms = [base[m] for m in it["members"]]
                if any(s == SEL for s in ms):
                    out.append(SEL)
                elif all(s == MIS for s in ms):
                    out.append(MIS)
                else:
                    out.append(OTH)
        return tuple(out)


class CAVar:
    """Categorical array: items x categories.  answer: tuple of cat id per item."""

    kind = "CA"

    def __init__(self, alias, items, cats, name=None, view_insertions=None):
        self.alias = alias
        self.name = alias if name is None else name
        self.items = [dict(i) for i in items]
        self.cats = [dict(c) for c in cats]
        self.view_insertions = view_insertions
        for it in self.items:
            it.setdefault("name", it["alias"])

    @property
    def valid_ids(self):
        return [c["id"] for c in self.cats if not c.get("missing")]

    @property
    def all_ids(self):
        return [c["id"] for c in self.cats]

    def answers(self):
        return list(itertools.product(self.all_ids, repeat=len(self.items)))


class NumArrVar:
    """Numeric array (measure only): items; the respondent's ``num`` holds the values."""

    kind = "NUMARR"

    def __init__(self, alias, items, name=None):
        self.alias = alias
        self.name = alias if name is None else name
        self.items = [dict(i) for i in items]
        for it in self.items:
            it.setdefault("name", it["alias"])


# ----------------------------------------------------------------------------------
# schema
# ----------------------------------------------------------------------------------


class Schema:
    """A cube query over variables.

    vars : list of Var (order = order of answers in a respondent)
    dims : list of (role, var_index) in *response dimension order*; roles:
           "cat", "enum", "mr" (expands to items + selection dims),
           "ca_items", "ca_cats"
    numeric : None, or dict {measures: [...], numarr: NumArrVar|None,
              valid_counts: bool}
    weighted : emit a weighted count measure distinct from unweighted counts
    """

    def __init__(self, name, vars, dims, weighted=False, numeric=None, overlaps=False,
                 squared=False, extra=None):
        self.name = name
        self.vars = list(vars)
        self.dims = list(dims)
        self.weighted = weighted
        self.numeric = numeric
        self.overlaps = overlaps
        self.squared = squared
        self.extra = extra or {}

    def profiles(self, weights=(1,), nums=(None,)):
        """Alphabet of respondent profiles: product of answers x weights x nums."""
        per_var = [v.answers() for v in self.vars]
        out = []
        for ans in itertools.product(*per_var):
            for w in weights:
                for x in nums:
                    out.append((ans, w, x))
        return out


# ----------------------------------------------------------------------------------
# payload pieces
# ----------------------------------------------------------------------------------


def _cat_dict(c):
    d = {"id": c["id"], "missing": bool(c.get("missing")), "name": c.get("name", str(c["id"])),
         "numeric_value": c.get("numeric_value")}
    if "date" in c:
        d["date"] = c["date"]
    if "selected" in c:
        d["selected"] = c["selected"]      # an explicit flag on an ordinary (non-dichotomy) category
    return d


def _refs(var, sub=False):
    refs = {"alias": var.alias, "name": var.name}
    if getattr(var, "description", None) is not None:
        refs["description"] = var.description
    if getattr(var, "view_insertions", None) is not None:
        refs["view"] = {"transform": {"insertions": var.view_insertions}}
    if sub:
        refs["subreferences"] = [_item_refs(it) for it in var.items]
        derived = [it for it in var.items if it.get("derived")]
        if derived and "view" not in refs:
            # as the server does: the variable's view lists the definitions of its derived items
            refs["view"] = {"transform": {"insertions": [
                {"function": "any_selected", "name": it["name"], "anchor": it.get("anchor"),
                 "kwargs": {"variable": var.alias,
                            "subvariable_ids": [var.items[m]["alias"] for m in it.get("members", ())]}}
                for it in derived]}}
    return refs


def _item_refs(it):
    r = {"alias": it["alias"], "name": it["name"]}
    if it.get("anchor") is not None:
        r["anchor"] = it["anchor"]
    return r


def _items_dim(var):
    els = []
    for pos, it in enumerate(var.items):
        els.append({
            "id": it.get("eid", pos + 1),
            "missing": False,
            "value": {"derived": bool(it.get("derived")), "id": it.get("sid", "%04d" % (pos + 1)),
                      "references": _item_refs(it)},
        })
    return {"derived": True, "references": _refs(var, sub=True),
            "type": {"class": "enum", "elements": els, "subtype": {"class": "variable"}}}


MR_CATS = [
    {"id": 1, "missing": False, "name": "Selected", "numeric_value": 1, "selected": True},
    {"id": 0, "missing": False, "name": "Other", "numeric_value": 0},
    {"id": -1, "missing": True, "name": "No Data", "numeric_value": None},
]


def dimension_dicts(schema):
    """List of response dimension dicts + list of axes.

    Each axis is (var_index, role, size) with roles cat/enum/mr_items/mr_sel/ca_items/
    ca_cats.
    """
    dims, axes = [], []
    for role, vi in schema.dims:
        var = schema.vars[vi]
        if role == "cat":
            t = {"class": "categorical", "ordinal": False,
                 "categories": [_cat_dict(c) for c in var.cats]}
            if var.type_order is not None:
                t["order"] = list(var.type_order)
            dims.append({"derived": False, "references": _refs(var), "type": t})
            axes.append((vi, "cat", len(var.cats)))
        elif role == "enum":
            els = [{"id": i, "value": v, "missing": False} for i, v in var.elements]
            if var.has_missing:
                m = {"id": var.missing_id, "value": {"?": -1}, "missing": True}
                els = [m] + els if var.missing_first else els + [m]
            st = {"class": var.subtype, "missing_reasons": {"No Data": -1}, "missing_rules": {}}
            if var.subtype == "datetime":
                st["resolution"] = var.resolution
            dims.append({"derived": True, "references": _refs(var),
                         "type": {"class": "enum", "elements": els, "subtype": st}})
            axes.append((vi, "enum", len(els)))
        elif role == "mr":
            dims.append(_items_dim(var))
            axes.append((vi, "mr_items", len(var.items)))
            dims.append({"derived": True, "references": _refs(var, sub=True),
                         "type": {"class": "categorical", "ordinal": False,
                                  "categories": [dict(c) for c in MR_CATS],
                                  "subvariables": [it.get("sid", "%04d" % (p + 1))
                                                   for p, it in enumerate(var.items)]}})
            axes.append((vi, "mr_sel", 3))
        elif role == "ca_items":
            dims.append(_items_dim(var))
            axes.append((vi, "ca_items", len(var.items)))
        elif role == "ca_cats":
            dims.append({"derived": False, "references": _refs(var, sub=True),
                         "type": {"class": "categorical", "ordinal": False,
                                  "categories": [_cat_dict(c) for c in var.cats],
                                  "subvariables": [it.get("sid", "%04d" % (p + 1))
                                                   for p, it in enumerate(var.items)]}})
            axes.append((vi, "ca_cats", len(var.cats)))
        else:
            raise ValueError(role)
    return dims, axes


def _var_choices(schema, axes, vi, answer):
    """List of dict {axis_pos: coord} — the cells of this variable's axes a respondent
    with `answer` falls in (one per item for array variables)."""
    var = schema.vars[vi]
    my = [(p, a) for p, a in enumerate(axes) if a[0] == vi]
    if not my:
        return [{}]
    roles = {a[1]: p for p, a in my}
    if var.kind == "CAT":
        ids = var.all_ids if var.type_order is None else [
            i for i in var.type_order if i in var.all_ids]
        return [{roles["cat"]: ids.index(answer)}]
    if var.kind == "ENUM":
        return [{roles["enum"]: var.all_ids.index(answer)}]
    if var.kind == "MR":
        st = var.states(answer)
        return [{roles["mr_items"]: i, roles["mr_sel"]: (SEL, OTH, MIS).index(s)}
                for i, s in enumerate(st)]
    if var.kind == "CA":
        out = []
        for i, a in enumerate(answer):
            d = {}
            if "ca_items" in roles:
                d[roles["ca_items"]] = i
            d[roles["ca_cats"]] = var.all_ids.index(a)
            out.append(d)
        if "ca_items" not in roles:
            raise ValueError("ca_cats without ca_items")
        return out
    raise ValueError(var.kind)


def respondent_cells(schema, axes, resp):
    """All coordinate tuples (one int per axis) the respondent contributes to."""
    answers = resp[0]
    var_idxs = []
    for a in axes:
        if a[0] not in var_idxs:
            var_idxs.append(a[0])
    choice_lists = [_var_choices(schema, axes, vi, answers[vi]) for vi in var_idxs]
    cells = []
    for combo in itertools.product(*choice_lists):
        coord = [None] * len(axes)
        for d in combo:
            for p, c in d.items():
                coord[p] = c
        cells.append(tuple(coord))
    return cells


def _flat(shape):
    n = 1
    for s in shape:
        n *= s
    return n


def _index(shape, coord):
    idx = 0
    for s, c in zip(shape, coord):
        idx = idx * s + c
    return idx


def _is_int(x):
    return isinstance(x, int) or (isinstance(x, float) and x == int(x))


def _median(pairs):
    """Weighted median of (value, weight) pairs (lower-half convention)."""
    pairs = sorted((v, w) for v, w in pairs if w > 0)
    if not pairs:
        return None
    tot = sum(w for _, w in pairs)
    acc = 0.0
    for i, (v, w) in enumerate(pairs):
        acc += w
        if acc > tot / 2.0:
            return v
        if acc == tot / 2.0:
            return (v + pairs[i + 1][0]) / 2.0 if i + 1 < len(pairs) else v
    return pairs[-1][0]


def tabulate(schema, dataset):
    """Return the cube-response dict the server would send for `dataset`."""
    dims, axes = dimension_dicts(schema)
    shape = tuple(a[2] for a in axes)
    n = _flat(shape)
    numeric = schema.numeric
    numarr = numeric.get("numarr") if numeric else None
    nitems = len(numarr.items) if numarr else None
    mshape = shape + ((nitems,) if numarr else ())
    mn = _flat(mshape)

    counts = [0] * n
    wcounts = [0] * n
    w2counts = [0] * n
    # numeric accumulators per measure cell: list of (value, weight)
    cellvals = [[] for _ in range(mn)] if numeric else None

    last_mr_vi = None
    if schema.overlaps:
        for role, vi in schema.dims:
            if role == "mr":
                last_mr_vi = vi
        ov_items = len(schema.vars[last_mr_vi].items)
        oshape = shape + (ov_items,)
        overlap = [0] * _flat(oshape)
        valid_overlap = [0] * _flat(oshape)

    total_n = 0
    for resp in dataset:
        answers, w, num = resp
        total_n += 1
        for coord in respondent_cells(schema, axes, resp):
            i = _index(shape, coord)
            counts[i] += 1
            wcounts[i] += w
            w2counts[i] += w * w
            if numeric:
                if numarr:
                    for j in range(nitems):
                        x = num[j] if num is not None else None
                        if x is not None:
                            cellvals[_index(mshape, coord + (j,))].append((x, w))
                elif num is not None:
                    cellvals[i].append((num, w))
            if schema.overlaps:
                st = schema.vars[last_mr_vi].states(answers[last_mr_vi])
                for j, s in enumerate(st):
                    k = _index(oshape, coord + (j,))
                    if s == SEL:
                        overlap[k] += w
                    if s != MIS:
                        valid_overlap[k] += w

    missing_reasons = {"No Data": -1}
    meta = {"derived": True, "references": {},
            "type": {"class": "numeric", "integer": True, "missing_reasons": missing_reasons,
                     "missing_rules": {}}}
    measures = {}
    result = {"counts": counts, "dimensions": dims, "element": "crunch:cube",
              "measures": measures, "n": total_n, "missing": 0}

    count_only = not numeric or numeric.get("with_count", False)
    if count_only and not numarr:
        measures["count"] = {"data": list(wcounts) if schema.weighted else list(counts),
                             "metadata": meta, "n_missing": 0}
    if schema.squared:
        measures["weighted_squared_count"] = {"data": list(w2counts), "metadata": meta,
                                              "n_missing": 0}
    if schema.overlaps:
        subs = [it.get("sid", "%04d" % (p + 1))
                for p, it in enumerate(schema.vars[last_mr_vi].items)]
        ometa = {"derived": True, "references": {},
                 "type": {"class": "numeric", "integer": True,
                          "missing_reasons": missing_reasons, "missing_rules": {},
                          "subvariables": subs}}
        measures["overlap"] = {"data": overlap, "metadata": ometa, "n_missing": 0}
        measures["valid_overlap"] = {"data": valid_overlap, "metadata": ometa, "n_missing": 0}

    if numeric:
        nmeta = {"derived": True, "references": {},
                 "type": {"class": "numeric", "integer": False,
                          "missing_reasons": {"No Data": -1, "NaN": -8}, "missing_rules": {}}}
        if numarr:
            nmeta = json.loads(json.dumps(nmeta))
            nmeta["references"] = {"alias": numarr.alias, "name": numarr.name,
                                   "subreferences": [{"alias": it["alias"], "name": it["name"]}
                                                     for it in numarr.items]}
            nmeta["type"]["subvariables"] = [it.get("sid", "S%d" % (p + 1))
                                             for p, it in enumerate(numarr.items)]
        else:
            nmeta["references"] = dict(numeric.get("references") or {})
        NA = {"?": -8}

        def per_cell(fn):
            out = []
            for vals in cellvals:
                out.append(fn(vals) if vals and sum(w for _, w in vals) > 0 else NA)
            return out

        def mean(vals):
            tw = sum(w for _, w in vals)
            return sum(v * w for v, w in vals) / tw

        def sd(vals):
            tw = sum(w for _, w in vals)
            m = mean(vals)
            k = len(vals)
            if k < 2:
                return NA
            var = sum(w * (v - m) ** 2 for v, w in vals) / tw * k / (k - 1.0)
            return math.sqrt(var)

        for m in numeric["measures"]:
            if m == "mean":
                data = per_cell(mean)
            elif m == "sum":
                # the server sends 0 for the sum over an empty cell (see the repo's sum
                # fixtures); "sum_empty": "na" gives the rarer {"?": -8} form
                empty = NA if numeric.get("sum_empty") == "na" else 0
                data = [sum(v * w for v, w in vals) if vals else empty for vals in cellvals]
            elif m == "stddev":
                data = per_cell(sd)
            elif m == "median":
                data = per_cell(lambda vals: _median(vals))
            else:
                raise ValueError(m)
            measures[m] = {"data": data, "metadata": nmeta, "n_missing": 0}
        if numeric.get("valid_counts", True):
            measures["valid_count_unweighted"] = {
                "data": [len(vals) for vals in cellvals], "metadata": nmeta, "n_missing": 0}
            if schema.weighted:
                measures["valid_count_weighted"] = {
                    "data": [sum(w for _, w in vals) for vals in cellvals],
                    "metadata": nmeta, "n_missing": 0}
    for k, v in schema.extra.items():
        result[k] = v
    return {"result": result}
