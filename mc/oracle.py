# encoding: utf-8
"""Reference model: measures defined over *respondents*, never over tensors.

Every quantity here is a loop over people with membership / eligibility predicates
taken from the property statements.  Shares only the variable definitions with
mc/model.py (no indexing code).
"""

import math

from mc.model import SEL, OTH, MIS  # noqa: F401

NAN = float("nan")


class Axis:
    """Oracle-side view of one dimension of a partition.

    ids, labels : valid elements in payload order
    member(resp, k)  -> bool  respondent belongs to element k
    valid(resp, k)   -> bool  respondent is eligible (non-missing) for element k
    array            -> bool  per-item eligibility (MR / CA items / numeric array)
    """

    def __init__(self, kind, ids, labels, member, valid, array, var=None, aliases=None):
        self.kind = kind
        self.ids = list(ids)
        self.labels = list(labels)
        self.member = member
        self.valid = valid
        self.array = array
        self.var = var
        self.aliases = aliases or [""] * len(self.ids)

    def __len__(self):
        return len(self.ids)


def axis_for(schema, role, vi):
    var = schema.vars[vi]
    if role == "cat":
        order = var.cats
        if var.type_order is not None:
            by = {c["id"]: c for c in var.cats}
            order = [by[i] for i in var.type_order if i in by]
        vcats = [c for c in order if not c.get("missing")]
        ids = [c["id"] for c in vcats]
        vset = set(ids)
        return Axis(
            "CAT_DATE" if var.is_date else "CAT", ids, [c.get("name", "") for c in vcats],
            lambda r, k, ids=ids, vi=vi: r[0][vi] == ids[k],
            lambda r, k, vset=vset, vi=vi: r[0][vi] in vset,
            False, var,
        )
    if role == "enum":
        ids = [e[0] for e in var.elements]
        vset = set(ids)
        return Axis(
            "ENUM", ids, [str(e[1]) for e in var.elements],
            lambda r, k, ids=ids, vi=vi: r[0][vi] == ids[k],
            lambda r, k, vset=vset, vi=vi: r[0][vi] in vset,
            False, var,
        )
    if role == "mr":
        ids = [it["alias"] for it in var.items]
        return Axis(
            "MR", ids, [it["name"] for it in var.items],
            lambda r, k, var=var, vi=vi: var.states(r[0][vi])[k] == SEL,
            lambda r, k, var=var, vi=vi: var.states(r[0][vi])[k] != MIS,
            True, var, aliases=[it["alias"] for it in var.items],
        )
    raise ValueError(role)


def numarr_axis(numarr):
    ids = [it["alias"] for it in numarr.items]
    return Axis(
        "NUMARR", ids, [it["name"] for it in numarr.items],
        lambda r, k: r[2] is not None and r[2][k] is not None,
        lambda r, k: r[2] is not None and r[2][k] is not None,
        True, numarr, aliases=ids,
    )


class SliceOracle:
    """2-D partition over respondents.

    rows / cols are Axis objects over independent variables, or the pair comes from one
    categorical array (use `ca_slice`).  `restrict(resp)` limits the population (3-D).
    `wfn(resp)` is the weight (1 for unweighted).
    """

    def __init__(self, rows, cols, dataset, restrict=None, ca=None, data=None,
                 row_groups=None, col_groups=None):
        self.rows = rows
        self.cols = cols
        self.ca = ca  # None | ("items_x_cats", var, vi) | ("cats_x_items", var, vi)
        self.data = data if data is not None else [
            r for r in dataset if restrict is None or restrict(r)]
        # element index -> list of base element indexes (a merged category has several)
        self.row_groups = row_groups or [[k] for k in range(len(rows))]
        self.col_groups = col_groups or [[k] for k in range(len(cols))]
        self.n_base_rows = len(rows)
        self.n_base_cols = len(cols)

    @property
    def nrows(self):
        return len(self.row_groups)

    @property
    def ncols(self):
        return len(self.col_groups)

    def with_groups(self, row_groups, col_groups):
        """Same respondents, extra merged elements appended after the base elements."""
        o = SliceOracle(self.rows, self.cols, None, ca=self.ca, data=self.data,
                        row_groups=[[k] for k in range(len(self.rows))] + [list(g) for g in row_groups],
                        col_groups=[[k] for k in range(len(self.cols))] + [list(g) for g in col_groups])
        return o

    # predicates for cell (i, j) -------------------------------------------------
    def _base_preds(self, r, i, j):
        """(member_row, valid_row, member_col, valid_col) for respondent r in base cell"""
        if self.ca is None:
            return (self.rows.member(r, i), self.rows.valid(r, i),
                    self.cols.member(r, j), self.cols.valid(r, j))
        mode, var, vi = self.ca
        vids = var.valid_ids
        if mode == "items_x_cats":
            a = r[0][vi][i]
            ok = a in vids
            return (True, ok, a == vids[j], ok)
        a = r[0][vi][j]
        ok = a in vids
        return (a == vids[i], ok, True, ok)

    def _preds(self, r, i, j):
        """Predicates for (possibly merged) elements i, j: a respondent belongs to a merged
        category when it belongs to any of its addends."""
        ra, cb = self.row_groups[i], self.col_groups[j]
        if len(ra) == 1 and len(cb) == 1:
            return self._base_preds(r, ra[0], cb[0])
        mr = vr = mc = vc = False
        for a in ra:
            for b in cb:
                p = self._base_preds(r, a, b)
                mr, vr, mc, vc = mr or p[0], vr or p[1], mc or p[2], vc or p[3]
        return (mr, vr, mc, vc)

    def cell(self, i, j, weighted=True):
        """dict count,row_base,col_base,table_base for one cell."""
        c = rb = cb = tb = 0
        for r in self.data:
            w = r[1] if weighted else 1
            mr, vr, mc, vc = self._preds(r, i, j)
            if mr and mc:
                c += w
            if mr and vc:
                rb += w
            if vr and mc:
                cb += w
            if vr and vc:
                tb += w
        return {"count": c, "row_base": rb, "col_base": cb, "table_base": tb}

    def matrix(self, what, weighted=True):
        return [[self.cell(i, j, weighted)[what] for j in range(self.ncols)]
                for i in range(self.nrows)]

    def all(self, weighted=True):
        out = {k: [] for k in ("count", "row_base", "col_base", "table_base")}
        for i in range(self.nrows):
            rowvals = {k: [] for k in out}
            for j in range(self.ncols):
                c = self.cell(i, j, weighted)
                for k in out:
                    rowvals[k].append(c[k])
            for k in out:
                out[k].append(rowvals[k])
        return out

    def members(self, i, j):
        """respondents counted in cell (i, j)"""
        out = []
        for r in self.data:
            mr, vr, mc, vc = self._preds(r, i, j)
            if mr and mc:
                out.append(r)
        return out


def ca_axes(schema, vi):
    """(items_axis, cats_axis) for a categorical-array variable (labels/ids only)."""
    var = schema.vars[vi]
    items = Axis("CA_SUBVAR", [it["alias"] for it in var.items],
                 [it["name"] for it in var.items], None, None, True, var,
                 aliases=[it["alias"] for it in var.items])
    vc = [c for c in var.cats if not c.get("missing")]
    cats = Axis("CA_CAT", [c["id"] for c in vc], [c.get("name", "") for c in vc],
                None, None, False, var)
    return items, cats


class StrandOracle:
    """1-D partition over respondents."""

    def __init__(self, rows, dataset, restrict=None):
        self.rows = rows
        self.data = [r for r in dataset if restrict is None or restrict(r)]

    def counts(self, weighted=True):
        return [sum((r[1] if weighted else 1) for r in self.data if self.rows.member(r, k))
                for k in range(len(self.rows))]

    def bases(self, weighted=True):
        return [sum((r[1] if weighted else 1) for r in self.data if self.rows.valid(r, k))
                for k in range(len(self.rows))]


# ----------------------------------------------------------------------------------
# statistics from the property statements
# ----------------------------------------------------------------------------------


def div(a, b):
    """a / b with NaN for a zero or NaN denominator."""
    if b is None or a is None:
        return NAN
    if isinstance(b, float) and math.isnan(b):
        return NAN
    if isinstance(a, float) and math.isnan(a):
        return NAN
    if b == 0:
        return NAN
    return a / b


def norm_cdf(x):
    return 0.5 * (1.0 + math.erf(x / math.sqrt(2.0)))


def two_sided_normal_p(z):
    if z != z:
        return NAN
    return 2.0 * (1.0 - norm_cdf(abs(z)))


def rank_rational(matrix):
    """Exact rank of a matrix of ints / simple floats via fractions."""
    from fractions import Fraction

    m = [[Fraction(x).limit_denominator(10 ** 9) for x in row] for row in matrix]
    if not m or not m[0]:
        return 0
    rows, cols = len(m), len(m[0])
    rank = 0
    for c in range(cols):
        piv = None
        for r in range(rank, rows):
            if m[r][c] != 0:
                piv = r
                break
        if piv is None:
            continue
        m[rank], m[piv] = m[piv], m[rank]
        for r in range(rows):
            if r != rank and m[r][c] != 0:
                f = m[r][c] / m[rank][c]
                m[r] = [a - f * b for a, b in zip(m[r], m[rank])]
        rank += 1
        if rank == rows:
            break
    return rank
