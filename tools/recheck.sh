#!/bin/sh
# tools/recheck.sh <seed-name> <check ids...> : re-run checks against a stored seeded change
set -u
NAME="$1"; shift
DEST=/verif/seeded/$NAME
git -C /repo status --short | grep -q . && { echo "/repo not clean"; exit 2; }
git -C /repo apply "$DEST/patch.diff" || exit 2
RES=""
for C in "$@"; do
  ( cd /verif && ./check "$C" --tier quick > "$DEST/check_$C${SUFFIX:-}.log" 2>&1 ); RC=$?
  N=$(grep -c '^VIOLATION' "$DEST/check_$C${SUFFIX:-}.log")
  echo "   ./check $C -> exit $RC, $N VIOLATION lines"; grep -A1 '^VIOLATION' "$DEST/check_$C${SUFFIX:-}.log" | grep kind= | head -3 | cut -c1-200
  RES="$RES $C:$RC:$N"
done
git -C /repo checkout -- .
echo "RESULT $NAME checks=$RES"
