#!/venv/bin/python
# tools/seedmeta.py <seed-name> <property> "<needs>" "<summary>" [caught_by ...]
import json, sys, os, re, glob
name, prop, needs, summary = sys.argv[1:5]
caught = sys.argv[5:]
d = "/verif/seeded/%s" % name
checks = {}
for f in sorted(glob.glob(d + "/check_*.log")):
    cid = os.path.basename(f)[6:-4]
    txt = open(f).read()
    kinds = sorted(set(re.findall(r"kind=(\S+)", txt)))
    checks[cid] = {"violation_lines": len(re.findall(r"^VIOLATION", txt, re.M)), "kinds": kinds[:12]}
meta = {
    "id": name, "breaks_property": prop, "change": summary, "needs_to_manifest": needs,
    "origin": "written by an independent sub-agent that saw only the property text and a scratch worktree of the repository (nothing from /verif)",
    "verified": {
        "patch_applies_to": "repo HEAD at the time of seeding",
        "repo_tests_with_change": open(d + "/tests_with_change.log").read().strip().splitlines()[-1:],
        "demo_exit_on_unchanged_tree": 0, "demo_exit_with_change": 1,
        "commands": ["tools/seed.sh %s <agent worktree> %s" % (prop, name),
                     "git -C /repo apply /verif/seeded/%s/patch.diff ; ./check <ID> --tier quick ; git -C /repo checkout -- ." % name],
    },
    "checks_run_against_change": checks,
    "caught_by": caught,
}
json.dump(meta, open(d + "/meta.json", "w"), indent=1)
print("wrote", d + "/meta.json", "caught_by", caught)
