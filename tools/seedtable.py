#!/venv/bin/python
# tools/seedtable.py : regenerate the table of DESIGN.md section 9 (between the SEEDTABLE markers) from seeded/*/meta.json
import glob, json, re
rows, missed = [], 0
for m in sorted(glob.glob("/verif/seeded/*/meta.json")):
    d = json.load(open(m))
    cb = "; ".join(d.get("caught_by") or ["NOT CAUGHT"])
    if "missed" in cb:
        missed += 1
        cb = cb.replace("missed before", "**missed first**").replace("missed first)", "**missed first**)") if "**" not in cb else cb
    rows.append("| %s %s | %s | %s |" % (d["id"], d["change"].replace("|", "/"), d["needs_to_manifest"].replace("|", "/"), cb.replace("|", "/")))
table = "| change | needs | caught by |\n|---|---|---|\n" + "\n".join(rows) + "\n\n(%d changes; %d were missed by the check as it stood when the change arrived.)\n" % (len(rows), missed)
p = "/verif/DESIGN.md"
s = open(p).read()
s = re.sub(r"<!-- SEEDTABLE -->.*<!-- /SEEDTABLE -->", "<!-- SEEDTABLE -->\n" + table.replace("\\", "\\\\") + "<!-- /SEEDTABLE -->", s, flags=re.S)
open(p, "w").write(s)
print(len(rows), "rows,", missed, "missed first")
