#!/bin/sh
# tools/seed.sh <PROP-ID> <agent-worktree> <seed-name> [extra check ids...]
# Verifies a seeded change independently and records it under /verif/seeded/<seed-name>/.
set -u
ID="$1"; WT="$2"; NAME="$3"; shift 3
DEST=/verif/seeded/$NAME
mkdir -p "$DEST"
cp "$WT/MUTANT/patch.diff" "$WT/MUTANT/demo.py" "$DEST/" || exit 2
[ -f "$WT/MUTANT/notes.md" ] && cp "$WT/MUTANT/notes.md" "$DEST/agent_notes.md"
SCR=/tmp/seedchk-$NAME
rm -rf "$SCR"; git -C /repo worktree add -q --detach "$SCR" HEAD || exit 2
mkdir -p "$SCR/MUTANT" && cp "$DEST/demo.py" "$SCR/MUTANT/demo.py"   # same layout the author used
echo "== demo on unchanged tree (expect exit 0)"
( cd "$SCR" && /tmp/mutkit/py "$SCR" "$SCR/MUTANT/demo.py" ) > "$DEST/demo_clean.log" 2>&1; D0=$?
echo "   exit=$D0"
( cd "$SCR" && git apply "$DEST/patch.diff" ) || { echo "patch does not apply"; git -C /repo worktree remove --force "$SCR"; exit 2; }
echo "== repo test suite with the change (expect only the known failure)"
( cd "$SCR" && /tmp/mutkit/py "$SCR" -m pytest -q -p no:cacheprovider -q 2>&1 | tail -3 ) > "$DEST/tests_with_change.log" 2>&1
cat "$DEST/tests_with_change.log"
echo "== demo with the change (expect exit 1)"
( cd "$SCR" && /tmp/mutkit/py "$SCR" "$SCR/MUTANT/demo.py" ) > "$DEST/demo_mutant.log" 2>&1; D1=$?
echo "   exit=$D1"; tail -2 "$DEST/demo_mutant.log"
git -C /repo worktree remove --force "$SCR"
if [ -n "${SCRATCH:-}" ]; then
  # while a sweep runs in /verif against /repo: use a scratch worktree instead of /repo itself
  /verif/tools/scratchcheck.sh "$NAME" $ID "$@" | sed 's/^RESULT [^ ]* checks=/RESULT demo_clean='$D0' demo_mutant='$D1' checks=/'
  exit 0
fi
echo "== /verif checks against /repo with the change applied"
git -C /repo apply "$DEST/patch.diff" || exit 2
RES=""
for C in $ID "$@"; do
  ( cd /verif && ./check "$C" --tier quick > "$DEST/check_$C.log" 2>&1 ); RC=$?
  N=$(grep -c '^VIOLATION' "$DEST/check_$C.log")
  echo "   ./check $C -> exit $RC, $N VIOLATION lines"; grep -A1 '^VIOLATION' "$DEST/check_$C.log" | grep kind= | head -4 | cut -c1-220
  RES="$RES $C:$RC:$N"
done
git -C /repo checkout -- .
git -C /repo status --short | head -3
echo "RESULT demo_clean=$D0 demo_mutant=$D1 checks=$RES"
