#!/bin/sh
# tools/scratchcheck.sh <seed-name> <check ids...> : run checks against a stored seeded change applied to a SCRATCH
# worktree of /repo (not /repo itself), writing evidence / replays under /tmp - usable while a sweep runs in /verif
set -u
NAME="$1"; shift
DEST=/verif/seeded/$NAME
SCR=/tmp/scratch-$NAME
rm -rf "$SCR"; git -C /repo worktree add -q --detach "$SCR" HEAD || exit 2
( cd "$SCR" && git apply "$DEST/patch.diff" ) || { git -C /repo worktree remove --force "$SCR"; exit 2; }
RES=""
for C in "$@"; do
  ( cd /verif && CRCUBE_SRC="$SCR/src" VERIF_OUT="/tmp/scratch-out-$NAME" ./check "$C" --tier quick > "$DEST/check_$C${SUFFIX:-}.log" 2>&1 ); RC=$?
  N=$(grep -c '^VIOLATION' "$DEST/check_$C${SUFFIX:-}.log")
  echo "   ./check $C -> exit $RC, $N VIOLATION lines"; grep -A1 '^VIOLATION' "$DEST/check_$C${SUFFIX:-}.log" | grep kind= | head -3 | cut -c1-200
  RES="$RES $C:$RC:$N"
done
git -C /repo worktree remove --force "$SCR"; rm -rf "/tmp/scratch-out-$NAME"
echo "RESULT $NAME checks=$RES"
