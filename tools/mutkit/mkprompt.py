#!/venv/bin/python
# tools/mutkit/mkprompt.py <PROP> <agent-id> : prompt for a fresh mutation agent; lists earlier seeds of the
# property (one line each) so the agent looks elsewhere. Creates the scratch worktree /tmp/wt-<agent-id>.
import glob, json, os, subprocess, sys
prop, aid = sys.argv[1:3]
os.makedirs("/tmp/mutkit", exist_ok=True)
for f in ("py", "PROMPT.txt"):
    subprocess.check_call(["cp", "/verif/tools/mutkit/" + f, "/tmp/mutkit/" + f])
for line in open("/verif/properties.jsonl"):
    d = json.loads(line)
    if d["id"] == prop:
        open("/tmp/mutkit/prop-%s.txt" % prop, "w").write(
            "%s - %s\n\n%s\n\nQuantified over: %s\n\nCode anchors: %s\n" % (
                d["id"], d["title"], d["statement"], d["quantifier"]["text"], json.dumps(d["anchors"], indent=1)))
tried = [json.load(open(m))["change"] for m in sorted(glob.glob("/verif/seeded/%s-*/meta.json" % prop))]
hints = ("any slip in the code behind this property EXCEPT what colleagues already tried (%s); pick a different "
         "mechanism, file or output than those" % "; ".join(tried))
needs = ("an unusual but legitimate input or combination of transforms, a particular dimension-type pairing, a square "
         "or 3-D shape, a stale id, a missing category placed before valid ones, weights, a numeric measure, a "
         "particular less-used output or measure, or a particular order of reads")
api = "Explore src/cr/cube to find the code implementing the property; fixtures under tests/fixtures show the response format."
t = open("/tmp/mutkit/PROMPT.txt").read()
t = t.replace("prop-@ID@.txt", "prop-%s.txt" % prop).replace("@ID@", aid).replace("@HINTS@", hints)
t = t.replace("@NEEDS@", needs).replace("@API@", api)
open("/tmp/mutkit/prompt-%s.txt" % aid, "w").write(t)
wt = "/tmp/wt-" + aid
if not os.path.isdir(wt):
    subprocess.check_call(["git", "-C", "/repo", "worktree", "add", "-q", "--detach", wt, "HEAD"])
print("/tmp/mutkit/prompt-%s.txt" % aid)
