#!/venv/bin/python
# Regenerates MANIFEST.json from the table below (run after adding a check).
import json, os
HERE = os.path.dirname(os.path.dirname(os.path.abspath(__file__)))
TECH = "explicit-state bounded exhaustive exploration of the real library (BFS over respondent/config/history states) against a respondent-level reference model"
CHECKS = {
 "C02": ("every (data set <=N, plain-subtotal config) state of ~25 schemas covering all nine count-extractor classes, enum / categorical-date pairings, numeric-mean and fractional-weight responses, square per-item tables and strands (plus a multitable cube set with a single-column filter cube and a table with subtotal differences for the mask relation): the six per-cell base matrices, 1-D/2-D margins, table base/margin (scalar/1-D/2-D form decided by array-ness), [min,max] ranges and minimum-base masks at thresholds 1,2 are compared with respondent-level eligibility sums", "4/C02"),
 "C03": ("same state space as C02 incl. the empty survey: proportions must equal oracle count/base (NaN iff base 0), lie in [0,1], percentages = 100x, base elements of a categorical dimension sum to 1, margin proportions = margin/table base; strands likewise", "4/C03"),
 "C04": ("(data set, insertion list) states: ONE insertion with positive/negative over all 1023 subset pairs of ids+stale+missing, pairs and both-dimension lists from a 12-spec alphabet, on CAT/CAT_DATE crossed with CAT, MR, CA, numeric and numeric-array responses and strands; oracles: signed-sum arithmetic, rows-first = columns-first intersections, NaN rules for differences / wave differences, and merge equivalence (every listed measure of a plain subtotal equals the library's own output for the data set with the addends merged)", "4/C04"),
 "C11": ("states of the C02 family plus difference / both-dimension insertion configs: variance, std-dev, std-err and MoE of row/column/table proportions (and strand twins) must equal the respondent-level weighted variance of the +1/-1/0 indicator over the proportion's base", "4/C11"),
 "C12": ("every table up to N respondents incl. all degenerate ones (and x3 multiplicities on 2x2): z = adjusted standardized residual from the cell's own bases, p = two-sided normal tail, 2x2 z^2 = Pearson chi-square from respondents, exact-rank < 2 => all NaN", "4/C12"),
 "C16": ("CAT/MR pairings, 2-D and 3-D, missing category of every dimension at every payload position: column index = 100 x column proportion / (members of the row element over respondents eligible for it, any column answer), NaN on subtotals", "4/C16"),
 "C15": ("sum responses (CAT x CAT, CAT x MR, MR x CAT, numeric-array x CAT, strands; empty cells as 0 and as NaN) x plain subtotals on rows/columns/both: every share = respondent-level sum / base-row, base-column or base-table total, block by block; base cells add up to 1", "4/C15"),
 "C14": ("(data set, one of all 125 assignments of {none,-1,0,1,2.5} to three categories, subtotal config) states on CAT x valued, valued x CAT, MR pairings, weighted, strands: scale mean / population sd / expanded-respondent median / std-err (sd over sqrt of the weighted margin), None-ness, NaN for vectors without valued respondents, overall margins", "4/C14"),
 "C17": ("(data set, insertion config incl. differences, 15 filter-statistics shapes, population in {None,0,1,1000}) states over CAT / CAT_DATE (rows, columns, both, neither) / MR slices and strands: fraction cascade, estimate = population proportion x population x fraction, MoE = 1.959964 x population x fraction x respondent-level std-err, NaN for differences", "4/C17"),
 "C20": ("through the public API only: (a) the response's mean measure set to EVERY vector over {0,1,2.5,NaN} of length 1-6 (strands) and 2xL, L<=4 (slices) x every window in {absent,None,0,1..L+1}; (b) respondent-level data sets on CAT/MR x CAT_DATE(1-4 periods), non-date control, means, row subtotals: smoothed output = trailing mean of the public unsmoothed output with (w-1) NaN prefix, identity when guards fail, scale mean of smoothed proportions, percentages = 100x", "4/C20"),
 "C07": ("pure configuration space: dimension sizes 1-4, <=3 insertions with every anchor spelling (top/bottom/Top/None/stale/missing/int/str ids), every explicit id sequence over ids+stale up to length n+1, all hidden subsets, pruning with empty-row variants, view- vs analysis-defined and id-less insertions, columns and strands, MR with derived items under explicit orders; oracle = executable specification of the statement; signed and ins_N renderings must name the same sequence", "4/C07"),
 "C09": ("(data set with weights in {0,0.5,1,2}, hide subset, prune flags on both dimensions, none/plain/hidden subtotal) states on CAT, MR, MR x MR, CA pairings and strands: an element is absent iff hidden or (prune and empty) with emptiness decided from respondents' unweighted answers by the statement's bounds, visibility identical to the all-weights-1 run, subtotal rule, shape/is_empty/labels extents", "4/C09"),
 "C08": ("(data set, sort transform) states: every sortable MEASURE / MARGINAL / strand keyword enumerated from the library's enums x opposing element / opposing insertion / marginal / label / univariate types x directions x fixed lists x hidden elements, rows, columns and strands, with plain and difference subtotals, plus unresolvable keys; sort keys are read from the PUBLIC measure of an untransformed run; checks membership, subtotal-group position, fixed brackets, monotonicity with NaN last in payload order, fallback to the anchored payload order", "4/C08"),
 "C05": ("relation between two runs of the library: (data set, order x fixed lists with repeats/overlap x hide subset x prune flag on rows AND columns, insertions incl. a difference present) states on non-square CAT x CAT (weighted, squared weights, numeric), CAT x MR, MR x CAT, an x6-amplified table and strands; EVERY public output found by introspection (about 120 per slice) must equal the untransformed output re-indexed by the reported orders, position-valued outputs renumbered, scalars unchanged, no vector listed twice, extents = shape", "4/C05"),
 "C10": ("for every (data set, mirrored transform config) state the tabulator emits A x B and B x A of the same respondents (CAT x CAT incl. numeric, CAT_DATE x CAT, CAT x MR / MR x CAT, MR x MR, CA both orientations); output pairs found by introspection (row_*<->column_*, rows_*<->columns_*, index lists, masks, orders) must be equal / transposed and direction-free outputs must be transposes", "4/C10"),
 "C06": ("differential over (data set, transform config) states: each partition of a 3-D cube (table = CAT with the missing category first/mid/last, MR, CA items; rows x columns = CAT/MR pairings) must equal on EVERY introspected public output the library's 2-D analysis of the respondents restricted by the model to table element k; CA-as-0th strands = univariate analysis of the sub-variable, partition sets line up cube by cube, tab-book sets, inflated numeric-summary cubes keep every value", "4/C06"),
 "C13": ("(events of 1 or 3 identical respondents, config: subtotal column/row, alpha pair, only-larger flag, column order/hide) states on CAT x CAT (plain and squared weights), CAT x MR with and without overlap measures, MR x MR with overlaps, mean+stddev responses: t and p from the statement's formulas (unweighted or effective bases, Welch, overlap-corrected) computed from respondents; antisymmetry / symmetry / self-zero; index sets = exactly the other displayed columns below alpha (and smaller in only-larger mode), never self, secondary contains primary", "4/C13"),
 "C19": ("pure configuration space: array dimensions (MR rows/columns under element-id schemes 1..n, 0..n-1, 10/20/30, with a derived item; CA items; numeric array; datetime) x 11 transform slots (hide, rename, fill, explicit order, fixed top/bottom, opposing element, opposing insertion, key: alias / subvar_id) x every item x every unambiguous spelling (alias, sub-variable id, element id int/str, position int/str, datetime value), plus stale / malformed references; id-less categorical-array items and digit-string sub-variable ids colliding with a derived item's element id; two references per state (five slot pairings x ordered item pairs x spelling pairs): all ~120 public outputs identical to the alias spelling; unmatched reference == omitted, never raises", "4/C19"),
 "C18": ("explicit exploration of access histories on the real object graph: 21 inputs concentrated on what the library rewrites in place or caches (incl. categorical-date smoothing, sum measures, alias-keyed element transforms) (array-dimension transforms with every id spelling and stale ids, 3-D cubes sharing one transforms dict, tab-book / CA-as-0th / numeric-summary / single-column-filter cube sets, JSON text); events = reads of root and partition properties/methods and new(same|json|envelope|json-of-envelope|standalone cube) built from the USED argument objects; all histories to depth 2 (3 thorough) from the initial state and from after-read-everything / after-new / after-failed-read; oracle = reference table from pristine copies + full re-evaluation from the used arguments; plus a cooperative two-thread scheduler (switch points = every lazyproperty about to compute, preemption bound 1, 2 thorough, each schedule replayed twice)", "4/C18"),
 "C01": ("every multiset of <=N respondents over each schema's answer-profile alphabet is tabulated into a server payload and the real Cube/partition outputs are compared cell by cell with a respondent-loop oracle; covers all type pairings, missing-category positions, 1-D/2-D/3-D, weighted, numeric and numeric-array responses", "4/C01"),
}
PENDING = {}
props = [json.loads(l) for l in open(os.path.join(HERE, "properties.jsonl"))]
checks, na = [], []
for p in props:
    pid = p["id"]
    if pid in CHECKS:
        text, ref = CHECKS[pid]
        checks.append({
            "property_id": pid,
            "quick_cmd": "./check %s --tier quick" % pid,
            "thorough_cmd": "./check %s --tier thorough" % pid,
            "evidence_file": "/verif/evidence/%s.json" % pid,
            "replay_cmd_template": "./check %s --replay {path}" % pid,
            "engine": "mc",
            "level_claimed": {"category": "model_checking", "text": text, "design_ref": "DESIGN.md §%s" % ref},
            "level_note": "bounded: small dimensions, N respondents, small weight/value alphabets (stated per space in the evidence); trusts the tabulator's payload layout (bound to repo fixtures by ./check --selftest), numpy/scipy special functions",
            "technique": TECH,
        })
    else:
        na.append({"property_id": pid, "reason": PENDING.get(pid, "check not built yet in this session (design in DESIGN.md §4); not claimed until its check exists")})
m = {
 "version": 1,
 "setup_cmd": "./check --selftest",
 "hooks": {"guard": "CRUNCH_CUBE_VERIF", "enable": "none needed: checks use the public API of /repo/src (editable install in /venv); guard reserved, unused",
           "baseline_off_cmd": "cd /repo && /venv/bin/python -m pytest -q -p no:cacheprovider --timeout=900", "source_commits": [], "add_only": True},
 "engines": [{"name": "mc", "path": "/verif/mc", "serves_properties": sorted(CHECKS), "kind_free_text": "hand-written explicit-state explorer (Python, 16 worker processes) driving the real cr.cube library; respondent-level oracle"}],
 "checks": checks,
 "notes": "All checks: exit 0 = property held on every explored state; exit 1 + 'VIOLATION property=<id> replay=<path>' otherwise; known findings listed in known_findings.json print KNOWN-FINDING lines.",
 "not_applicable": na,
}
json.dump(m, open(os.path.join(HERE, "MANIFEST.json"), "w"), indent=1)
print("claimed", len(checks), "not claimed", len(na))
